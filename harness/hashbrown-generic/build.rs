fn main() {
    // Applies to this package only: selects the portable 8-byte group scanner.
    println!("cargo:rustc-cfg=miri");
    println!("cargo:rustc-check-cfg=cfg(miri)");
    println!("cargo:rerun-if-changed=build.rs");
}
