// C20: serde round trips, duplicate keys, lying size hints, errors part-way. Included once per
// back-end.

use crate::alloc::{self, CheckAlloc};
use crate::case::Case;
use crate::dump::Bad;
use crate::elem::{Key, KeyT, Val, ValT};
use crate::outcome::Outcome;
use crate::plan::{Plan, PlanBuildHasher};
use crate::world::{self, Violation};
use serde::de::value::{Error as VError, MapDeserializer, SeqDeserializer};
use serde::de::Deserialize;
use std::cell::Cell;

type SMap = hb::HashMap<Key, Val, PlanBuildHasher, CheckAlloc>;
type SSet = hb::HashSet<Key, PlanBuildHasher, CheckAlloc>;

thread_local! {
    /// bytes held from the checking allocator when the first element was requested
    static RESERVED_AT_FIRST_READ: Cell<Option<usize>> = const { Cell::new(None) };
}

include!("interp_serde_plain.rs");

/// Iterator whose size_hint lies.
struct Lying<I> {
    inner: I,
    claim: Option<usize>,
    reads: usize,
}
impl<I: Iterator> Iterator for Lying<I> {
    type Item = I::Item;
    fn next(&mut self) -> Option<I::Item> {
        if self.reads == 0 {
            RESERVED_AT_FIRST_READ.with(|r| r.set(Some(alloc::stats().bytes_live)));
        }
        self.reads += 1;
        self.inner.next()
    }
    fn size_hint(&self) -> (usize, Option<usize>) {
        match self.claim {
            Some(c) => (c, Some(c)),
            None => self.inner.size_hint(),
        }
    }
}

const HINTS: [usize; 8] = [0, 1, 4095, 4096, 4097, 1 << 32, usize::MAX, usize::MAX / 2];
/// claims above the cap that an allocator could still satisfy, and claims around 2^63
const HINTS2: [usize; 8] = [5000, 8192, 50_000, 100_000, 20_000, (1 << 63) + 1, usize::MAX - 1, 1 << 63];

fn contents_map(m: &SMap) -> Vec<(u32, u64)> {
    let mut v: Vec<(u32, u64)> = m.iter().map(|(k, v)| (k.id(), v.get())).collect();
    v.sort_unstable();
    v
}
fn contents_set(s: &SSet) -> Vec<u32> {
    let mut v: Vec<u32> = s.iter().map(|k| k.id()).collect();
    v.sort_unstable();
    v
}

fn last_wins(entries: &[(u32, u64)]) -> Vec<(u32, u64)> {
    let mut m: std::collections::BTreeMap<u32, u64> = Default::default();
    for (k, v) in entries {
        m.insert(*k, *v);
    }
    m.into_iter().collect()
}

pub fn run_inner(case: &Case, out: &mut Outcome) -> Result<(), Bad> {
    let plan = Plan {
        pos_rule: case.h("pos") as u32,
        pos_param: case.h("pos_p") as u32,
        tag_rule: case.h("tag") as u32,
        tag_param: case.h("tag_p") as u32,
        seed: case.h("seed"),
    };
    world::with(|w| w.default_plan = plan);
    let entries: Vec<(u32, u64)> = case.ops.iter().map(|o| (o.a[0] as u32, o.a[1])).collect();
    let is_set = case.h("coll") == 1;
    let mode = case.h("mode") % 4;
    let hint_sel = case.h("hint") as usize;
    // None, exact, understated (half, one) and the fixed list (0, 1, around the cap, huge)
    let claim = match hint_sel {
        0 => None,
        1 => Some(entries.len()),
        8 => Some(entries.len() / 2),
        9 => Some(1),
        10 => Some(0),
        11 => Some(entries.len() + 1),
        n if n >= 12 => Some(HINTS2[(n - 12) % HINTS2.len()]),
        n => Some(HINTS[n % HINTS.len()]),
    };
    // element types other than the tracked pair: zero-sized, one byte, wide, bool, strings
    let etype = case.h("etype");
    if etype != 0 {
        match etype % 6 {
            1 => run_plain::<(), ()>(case, out, plan, claim)?,
            2 => run_plain::<u8, u8>(case, out, plan, claim)?,
            3 => run_plain::<String, u64>(case, out, plan, claim)?,
            4 => run_plain::<u64, ()>(case, out, plan, claim)?,
            5 => run_plain::<(), String>(case, out, plan, claim)?,
            _ => run_plain::<bool, String>(case, out, plan, claim)?,
        }
        let st = alloc::stats();
        if st.n_live != 0 {
            bad!("C20", "block-leaked", "{} blocks still allocated", st.n_live);
        }
        alloc::check_zones(true);
        if let Some(v) = world::take_violation() {
            return Err((v.property, Box::leak(v.kind.into_boxed_str()), v.detail));
        }
        return Ok(());
    }
    let err_pos = case.h("err"); // 0 = no error, else 1-based element position that fails
    let has_dup = {
        let mut ids: Vec<u32> = entries.iter().map(|e| e.0).collect();
        ids.sort_unstable();
        ids.windows(2).any(|w| w[0] == w[1])
    };
    if has_dup {
        out.labels |= crate::dump::L_X1;
    }
    if claim.map_or(false, |c| c > 4096) {
        out.labels |= crate::dump::L_X2;
    }
    if err_pos != 0 && (err_pos as usize) <= entries.len().max(1) {
        out.labels |= crate::dump::L_X3;
    }

    // block size of with_capacity(4096) for this element layout: the reservation cap of the statement
    let cap_block = if is_set {
        let s: SSet = SSet::with_capacity_and_hasher_in(4096, PlanBuildHasher::new(plan), CheckAlloc);
        s.allocation_size()
    } else {
        let m: SMap = SMap::with_capacity_and_hasher_in(4096, PlanBuildHasher::new(plan), CheckAlloc);
        m.allocation_size()
    };
    let live0 = world::with(|w| w.live_elems);

    match mode {
        0 => {
            // serialise -> JSON -> deserialise == original
            if is_set {
                let mut s: SSet = SSet::with_hasher_in(PlanBuildHasher::new(plan), CheckAlloc);
                for (i, (k, _)) in entries.iter().enumerate() {
                    s.insert(Key::new(*k, i as u32));
                }
                let text = serde_json::to_string(&s).map_err(|e| ("C20", "serialize-failed", format!("{e}")))?;
                let back: SSet = serde_json::from_str(&text).map_err(|e| ("C20", "roundtrip-deserialize-failed", format!("{e}: {text}")))?;
                if back != s || s != back || contents_set(&back) != contents_set(&s) {
                    bad!("C20", "roundtrip-differs", "set {:?} came back as {:?}", contents_set(&s), contents_set(&back));
                }
            } else {
                let mut m: SMap = SMap::with_hasher_in(PlanBuildHasher::new(plan), CheckAlloc);
                for (i, (k, v)) in entries.iter().enumerate() {
                    m.insert(Key::new(*k, i as u32), Val::new(*v));
                }
                let text = serde_json::to_string(&m).map_err(|e| ("C20", "serialize-failed", format!("{e}")))?;
                let back: SMap = serde_json::from_str(&text).map_err(|e| ("C20", "roundtrip-deserialize-failed", format!("{e}: {text}")))?;
                if back != m || m != back || contents_map(&back) != contents_map(&m) {
                    bad!("C20", "roundtrip-differs", "map {:?} came back as {:?}", contents_map(&m), contents_map(&back));
                }
            }
        }
        _ => {
            // value deserializers over an entry stream with duplicates, a claimed hint, an error position
            crate::serde_elem::FAIL_AT.with(|f| f.set(if err_pos == 0 { u64::MAX } else { err_pos }));
            crate::serde_elem::SEEN.with(|f| f.set(0));
            RESERVED_AT_FIRST_READ.with(|r| r.set(None));
            let bytes0 = alloc::stats().bytes_live;
            let n_elems_unit = if is_set { 1 } else { 2 };
            if is_set {
                let ids: Vec<u32> = entries.iter().map(|e| e.0).collect();
                let it = Lying { inner: ids.clone().into_iter(), claim, reads: 0 };
                let de: SeqDeserializer<_, VError> = SeqDeserializer::new(it);
                let r: Result<SSet, VError> = if mode == 3 {
                    let mut place: SSet = SSet::with_hasher_in(PlanBuildHasher::new(plan), CheckAlloc);
                    for i in 0..(case.h("pre") % 40) as u32 {
                        place.insert(Key::new(10_000 + i, 0));
                    }
                    <SSet as Deserialize>::deserialize_in_place(de, &mut place).map(|()| place)
                } else {
                    SSet::deserialize(de)
                };
                crate::serde_elem::FAIL_AT.with(|f| f.set(u64::MAX));
                let fails = err_pos != 0 && (err_pos as usize) <= ids.len() * n_elems_unit;
                match r {
                    Ok(s) => {
                        if fails {
                            bad!("C20", "error-swallowed", "element {err_pos} failed to deserialize but the set was returned");
                        }
                        let mut want: Vec<u32> = ids.clone();
                        want.sort_unstable();
                        want.dedup();
                        if contents_set(&s) != want {
                            bad!("C20", "deserialized-contents", "set holds {:?}, input {:?}", contents_set(&s), want);
                        }
                    }
                    Err(e) => {
                        if !fails {
                            bad!("C20", "spurious-error", "deserialize failed without an injected error: {e}");
                        }
                    }
                }
            } else {
                let it = Lying { inner: entries.clone().into_iter(), claim, reads: 0 };
                let de: MapDeserializer<'_, _, VError> = MapDeserializer::new(it);
                let r: Result<SMap, VError> = SMap::deserialize(de);
                crate::serde_elem::FAIL_AT.with(|f| f.set(u64::MAX));
                let fails = err_pos != 0 && (err_pos as usize) <= entries.len() * n_elems_unit;
                match r {
                    Ok(m) => {
                        if fails {
                            bad!("C20", "error-swallowed", "element {err_pos} failed to deserialize but the map was returned");
                        }
                        let want = last_wins(&entries);
                        if contents_map(&m) != want {
                            bad!("C20", "duplicate-keys-last-wins", "map holds {:?}, last-wins model {:?}", contents_map(&m), want);
                        }
                    }
                    Err(e) => {
                        if !fails {
                            bad!("C20", "spurious-error", "deserialize failed without an injected error: {e}");
                        }
                    }
                }
            }
            // reservation made before the first element was read
            if let Some(at_first) = RESERVED_AT_FIRST_READ.with(|r| r.get()) {
                let reserved = at_first.saturating_sub(bytes0);
                out.count("max_reserved_before_first_read", reserved as u64);
                if reserved > cap_block {
                    bad!("C20", "hint-forces-over-allocation", "claimed length {:?}: {reserved} bytes were reserved before reading any element, more than with_capacity(4096) = {cap_block}", claim);
                }
            }
        }
    }
    // everything built was dropped, nothing stays allocated
    let live = world::with(|w| w.live_elems);
    if live != live0 {
        bad!("C20", "elements-leaked", "{} tracked elements alive after the collections were dropped (error position {err_pos})", live - live0);
    }
    if let Some(v) = world::take_violation() {
        return Err((if v.property == "C03" { "C20" } else { v.property }, Box::leak(v.kind.into_boxed_str()), v.detail));
    }
    let st = alloc::stats();
    if st.n_live != 0 {
        bad!("C20", "block-leaked", "{} blocks still allocated", st.n_live);
    }
    alloc::check_zones(true);
    if let Some(v) = world::take_violation() {
        return Err((v.property, Box::leak(v.kind.into_boxed_str()), v.detail));
    }
    Ok(())
}

pub fn run_case(case: &Case) -> Outcome {
    world::install_panic_hook();
    world::reset();
    let mut out = Outcome::default();
    out.steps = case.ops.len();
    world::clear_panic_messages();
    let r = std::panic::catch_unwind(std::panic::AssertUnwindSafe(|| run_inner(case, &mut out)));
    match r {
        Ok(Ok(())) => {}
        Ok(Err(b)) => out.violation = Some(Violation { property: b.0, kind: b.1.to_string(), step: 0, detail: b.2 }),
        Err(p) => {
            drop(p);
            let msg = world::last_panic_message().unwrap_or_default();
            out.violation = Some(Violation { property: "C20", kind: "unexpected-panic".into(), step: 0, detail: msg });
        }
    }
    out
}
