//! Back-end independent copy of the hook dump, the structure validator (DESIGN 6.3) and the
//! state-class labels (DESIGN 6.6).

pub const EMPTY: u8 = 0xFF;
pub const DELETED: u8 = 0x80;

#[derive(Clone, Debug)]
pub struct Dump {
    pub bucket_mask: usize,
    pub items: usize,
    pub growth_left: usize,
    pub ctrl: Vec<u8>,
    pub group_width: usize,
    pub elem_size: usize,
    pub elem_align: usize,
    pub ctrl_addr: usize,
    pub is_singleton: bool,
}

pub type Bad = (&'static str, &'static str, String);

impl Dump {
    pub fn buckets(&self) -> usize {
        self.bucket_mask + 1
    }
    pub fn real_ctrl(&self) -> &[u8] {
        if self.is_singleton {
            &self.ctrl[..1]
        } else {
            &self.ctrl[..self.buckets()]
        }
    }
    pub fn n_full(&self) -> usize {
        if self.is_singleton {
            return 0;
        }
        self.real_ctrl().iter().filter(|c| **c & 0x80 == 0).count()
    }
    pub fn n_deleted(&self) -> usize {
        if self.is_singleton {
            return 0;
        }
        self.real_ctrl().iter().filter(|c| **c == DELETED).count()
    }
    pub fn n_empty(&self) -> usize {
        self.real_ctrl().iter().filter(|c| **c == EMPTY).count()
    }
    pub fn capacity(&self) -> usize {
        self.items + self.growth_left
    }
    pub fn full_indices(&self) -> Vec<usize> {
        if self.is_singleton {
            return vec![];
        }
        (0..self.buckets())
            .filter(|i| self.ctrl[*i] & 0x80 == 0)
            .collect()
    }
    /// usable capacity of this bucket count by the statement of C17 (independent of the crate)
    pub fn max_load(&self) -> usize {
        let b = self.buckets();
        if b < 8 {
            b - 1
        } else {
            b / 8 * 7
        }
    }

    /// Predicted `(block_start, block_size, block_align)` from independent layout arithmetic.
    pub fn predicted_block(&self) -> (usize, usize, usize) {
        let align = self.elem_align.max(self.group_width);
        let data = self.elem_size * self.buckets();
        let off = (data + align - 1) & !(align - 1);
        (
            self.ctrl_addr.wrapping_sub(off),
            off + self.buckets() + self.group_width,
            align,
        )
    }

    /// V1-V4. `ledger`: whether the collection lives in the checking allocator.
    pub fn validate(&self, ledger: bool) -> Result<(), Bad> {
        let w = self.group_width;
        let b = self.buckets();
        if !b.is_power_of_two() {
            return Err(("C02", "V4-buckets-not-power-of-two", format!("buckets {b}")));
        }
        if self.is_singleton {
            if self.items != 0 || self.growth_left != 0 {
                return Err((
                    "C02",
                    "V4-singleton-not-empty",
                    format!("singleton with items {} growth_left {}", self.items, self.growth_left),
                ));
            }
            if self.ctrl.iter().any(|c| *c != EMPTY) {
                return Err(("C02", "V4-static-group-modified", format!("{:02x?}", self.ctrl)));
            }
            return Ok(());
        }
        if self.ctrl.len() != b + w {
            return Err(("C02", "V4-ctrl-length", format!("{} != {}", self.ctrl.len(), b + w)));
        }
        for (i, c) in self.ctrl.iter().enumerate() {
            if *c & 0x80 != 0 && *c != EMPTY && *c != DELETED {
                return Err(("C02", "V3-invalid-control-byte", format!("ctrl[{i}] = {c:#x}")));
            }
        }
        let full = self.n_full();
        if full != self.items {
            return Err((
                "C02",
                "V1-items-vs-full-bytes",
                format!("items {} but {} FULL control bytes in {} buckets", self.items, full, b),
            ));
        }
        let empty = self.n_empty();
        if empty == 0 {
            return Err(("C13", "V2-no-empty-slot", format!("no EMPTY control byte in {b} buckets")));
        }
        if self.growth_left >= empty {
            return Err((
                "C13",
                "V2-growth-left-exceeds-empty",
                format!(
                    "growth_left {} >= EMPTY bytes {} (items {}, buckets {})",
                    self.growth_left, empty, self.items, b
                ),
            ));
        }
        // V3 mirror bytes
        if b >= w {
            for i in 0..w {
                if self.ctrl[b + i] != self.ctrl[i] {
                    return Err((
                        "C02",
                        "V3-mirror-mismatch",
                        format!("ctrl[{}]={:#x} != ctrl[{}]={:#x}", b + i, self.ctrl[b + i], i, self.ctrl[i]),
                    ));
                }
            }
        } else {
            for i in 0..b {
                if self.ctrl[w + i] != self.ctrl[i] {
                    return Err((
                        "C02",
                        "V3-mirror-mismatch",
                        format!("small table: ctrl[{}]={:#x} != ctrl[{}]={:#x}", w + i, self.ctrl[w + i], i, self.ctrl[i]),
                    ));
                }
            }
            for i in b..w {
                if self.ctrl[i] != EMPTY {
                    return Err((
                        "C02",
                        "V3-trailing-not-empty",
                        format!("small table: ctrl[{i}]={:#x} is not EMPTY", self.ctrl[i]),
                    ));
                }
            }
        }
        if ledger {
            let (start, size, align) = self.predicted_block();
            match crate::alloc::block_containing(self.ctrl_addr) {
                Some((u, s, a)) if u == start && s == size && a == align => {}
                other => {
                    return Err((
                        "C02",
                        "V4-block-mismatch",
                        format!(
                            "control pointer {:#x}: predicted block (start {:#x}, size {}, align {}), ledger has {:?}",
                            self.ctrl_addr, start, size, align, other
                        ),
                    ));
                }
            }
        }
        Ok(())
    }

    /// The exact accounting identity (diagnostic; holds in this code base).
    pub fn accounting_exact(&self) -> bool {
        self.is_singleton || self.items + self.n_deleted() + self.growth_left == self.max_load()
    }

    /// V5 for one FULL slot: tag matches and `find` can reach it.
    pub fn check_slot(&self, index: usize, hash: u64) -> Result<(), Bad> {
        let tag = (hash >> 57) as u8 & 0x7f;
        if self.ctrl[index] != tag {
            return Err((
                "C01",
                "V5-tag-mismatch",
                format!("slot {index}: control byte {:#x}, tag of its hash {:#x}", self.ctrl[index], tag),
            ));
        }
        let w = self.group_width;
        let b = self.buckets();
        let mask = self.bucket_mask;
        let mut pos = (hash as usize) & mask;
        let mut stride = 0usize;
        let groups = (b / w).max(1);
        for _ in 0..groups {
            let mut has_empty = false;
            let mut covers = false;
            for j in 0..w {
                // group window, read through the mirror bytes exactly as a scan does
                let c = self.ctrl[pos + j];
                if c == EMPTY {
                    has_empty = true;
                }
                if (pos + j) & mask == index && pos + j < b + w {
                    // for small tables only the first `b` positions and the mirror are real
                    if b >= w || pos + j < b || pos + j >= w {
                        covers = true;
                    }
                }
            }
            if covers {
                return Ok(());
            }
            if has_empty {
                return Err((
                    "C01",
                    "V5-unreachable",
                    format!(
                        "slot {index} (hash {hash:#x}, start {}) lies behind a group with an EMPTY byte at probe position {pos}",
                        (hash as usize) & mask
                    ),
                ));
            }
            stride += w;
            pos = (pos + stride) & mask;
        }
        Err(("C01", "V5-unreachable", format!("slot {index} not covered by its probe sequence")))
    }

    /// Whether inserting an absent key with this hash would take the small-table fix-up path.
    pub fn predicts_fixup(&self, hash: u64) -> bool {
        let w = self.group_width;
        let b = self.buckets();
        if self.is_singleton || b >= w {
            return false;
        }
        let pos = (hash as usize) & self.bucket_mask;
        for j in 0..w {
            let c = self.ctrl[pos + j];
            if c & 0x80 != 0 {
                let idx = (pos + j) & self.bucket_mask;
                return self.ctrl[idx] & 0x80 == 0;
            }
        }
        false
    }

    /// Number of groups a lookup of `hash` inspects before it meets an EMPTY byte, and whether a
    /// group window crossed the end of the table (read the mirror bytes).
    pub fn probe_shape(&self, hash: u64) -> (usize, bool) {
        if self.is_singleton {
            return (1, false);
        }
        let w = self.group_width;
        let b = self.buckets();
        let mask = self.bucket_mask;
        let mut pos = (hash as usize) & mask;
        let mut stride = 0usize;
        let mut n = 0usize;
        let mut wrapped = false;
        let groups = (b / w).max(1);
        for _ in 0..groups {
            n += 1;
            if b >= w && pos + w > b {
                wrapped = true;
            }
            if (0..w).any(|j| self.ctrl[pos + j] == EMPTY) {
                break;
            }
            stride += w;
            pos = (pos + stride) & mask;
        }
        (n, wrapped)
    }
}

// ---------------------------------------------------------------------------------------------
// labels

pub const L_TOMBSTONE: u32 = 1 << 0;
pub const L_REHASH_IN_PLACE: u32 = 1 << 1;
pub const L_RESIZE_UP: u32 = 1 << 2;
pub const L_RESIZE_DOWN: u32 = 1 << 3;
pub const L_FIXUP: u32 = 1 << 4;
pub const L_LONG_PROBE: u32 = 1 << 5;
pub const L_MIRROR_PROBE: u32 = 1 << 6;
pub const L_FULL_LOAD: u32 = 1 << 7;
pub const L_SINGLETON_AGAIN: u32 = 1 << 8;
pub const L_REMOVE_PRESENT: u32 = 1 << 9;
pub const L_OVERWRITE: u32 = 1 << 10;
pub const L_SMALL_TABLE: u32 = 1 << 11;
pub const L_BIG_TABLE: u32 = 1 << 12;
pub const L_TOMBSTONE_REUSE: u32 = 1 << 13;
pub const L_ENTRY_AT_FULL: u32 = 1 << 14;
pub const L_PROBE_TOMB: u32 = 1 << 15;
pub const L_ITER_CUT: u32 = 1 << 16;
pub const L_DRAIN_CUT: u32 = 1 << 17;
pub const L_EXTRACT_CUT: u32 = 1 << 18;
pub const L_INTOITER_CUT: u32 = 1 << 19;
pub const L_CLONE_FROM_DIFF: u32 = 1 << 20;
pub const L_EQ_DIFF_HISTORY: u32 = 1 << 21;
pub const L_MANY_MUT: u32 = 1 << 22;
pub const L_FAULT_UNWOUND: u32 = 1 << 23;
pub const L_FAULT_GROWTH: u32 = 1 << 24;
pub const L_FAULT_REHASH: u32 = 1 << 25;
pub const L_FAULT_OTHER: u32 = 1 << 26;
pub const L_REINSERT_VACANT: u32 = 1 << 27;
pub const L_ITER_HASH_LONG: u32 = 1 << 28;
pub const L_X1: u32 = 1 << 29;
pub const L_X2: u32 = 1 << 30;
pub const L_X3: u32 = 1 << 31;

pub const LABEL_NAMES: [(u32, &str); 29] = [
    (L_TOMBSTONE, "tombstone_present"),
    (L_REHASH_IN_PLACE, "rehash_in_place"),
    (L_RESIZE_UP, "resize_up"),
    (L_RESIZE_DOWN, "resize_down"),
    (L_FIXUP, "small_table_fixup"),
    (L_LONG_PROBE, "probe_longer_than_one_group"),
    (L_MIRROR_PROBE, "probe_through_mirror_bytes"),
    (L_FULL_LOAD, "len_eq_capacity"),
    (L_SINGLETON_AGAIN, "singleton_again"),
    (L_REMOVE_PRESENT, "remove_present_key"),
    (L_OVERWRITE, "overwrite_present_key"),
    (L_SMALL_TABLE, "table_smaller_than_group"),
    (L_BIG_TABLE, "table_larger_than_group"),
    (L_TOMBSTONE_REUSE, "tombstone_reused"),
    (L_ENTRY_AT_FULL, "entry_created_at_growth_left_0"),
    (L_PROBE_TOMB, "probe_window_with_tombstone"),
    (L_ITER_CUT, "iterator_switched_over_strictly_inside"),
    (L_DRAIN_CUT, "drain_dropped_strictly_inside"),
    (L_EXTRACT_CUT, "extract_if_dropped_strictly_inside"),
    (L_INTOITER_CUT, "into_iter_dropped_strictly_inside"),
    (L_CLONE_FROM_DIFF, "clone_from_differing_buckets_or_tombstoned_target"),
    (L_EQ_DIFF_HISTORY, "eq_on_equal_contents_with_different_plans"),
    (L_MANY_MUT, "get_many_mut_two_present_or_same_entry"),
    (L_FAULT_UNWOUND, "fault_unwound"),
    (L_FAULT_GROWTH, "fault_during_growth_into_new_block"),
    (L_FAULT_REHASH, "hash_fault_under_rehash_in_place_conditions"),
    (L_FAULT_OTHER, "fault_in_clone_drop_closure_into_or_iterator"),
    (L_REINSERT_VACANT, "remove_then_reinsert_through_vacant_entry"),
    (L_ITER_HASH_LONG, "iter_hash_over_long_probe"),
];

/// Labels derived from the dumps before and after one operation.
pub fn transition_labels(before: &Dump, after: &Dump, was_clear_like: bool) -> u32 {
    let mut l = 0;
    if after.n_deleted() > 0 {
        l |= L_TOMBSTONE;
    }
    if !after.is_singleton && !before.is_singleton {
        if after.bucket_mask > before.bucket_mask {
            l |= L_RESIZE_UP;
        } else if after.bucket_mask < before.bucket_mask {
            l |= L_RESIZE_DOWN;
        } else if after.ctrl_addr == before.ctrl_addr
            && before.n_deleted() > 0
            && before.growth_left == 0
            && after.n_deleted() == 0
            && after.items >= before.items
            && before.items > 0
            && !was_clear_like
        {
            l |= L_REHASH_IN_PLACE;
        }
        if after.bucket_mask == before.bucket_mask
            && after.ctrl_addr == before.ctrl_addr
            && after.items == before.items + 1
            && after.n_deleted() + 1 == before.n_deleted()
        {
            l |= L_TOMBSTONE_REUSE;
        }
    }
    if before.is_singleton && !after.is_singleton {
        l |= L_RESIZE_UP;
    }
    if after.is_singleton && !before.is_singleton {
        l |= L_SINGLETON_AGAIN | L_RESIZE_DOWN;
    }
    if !after.is_singleton {
        if after.growth_left == 0 && after.items > 0 {
            l |= L_FULL_LOAD;
        }
        if after.buckets() < after.group_width {
            l |= L_SMALL_TABLE;
        } else if after.buckets() > after.group_width {
            l |= L_BIG_TABLE;
        }
    }
    l
}
