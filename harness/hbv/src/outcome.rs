//! Result of running one case.

use crate::world::Violation;

#[derive(Clone, Debug, Default)]
pub struct Outcome {
    pub violation: Option<Violation>,
    /// state-class labels reached (bit set, see dump.rs)
    pub labels: u32,
    pub steps: usize,
    /// whether the case is non-trivial by the property's rule
    pub nontrivial: bool,
    /// named counters (property specific)
    pub counters: Vec<(&'static str, u64)>,
    /// per step: (transition labels, callback counts per class); filled when the header has `trace`
    pub per_step: Vec<(u32, [u64; crate::world::NCLASS])>,
    /// per step digest of the order-independent observables (len, sorted contents); filled when
    /// the header has `transcript`
    pub transcript: Vec<u64>,
    /// exact sub-case that failed, when the evaluation derives several runs from one case
    pub repro: Option<crate::case::Case>,
}

impl Outcome {
    pub fn count(&mut self, name: &'static str, n: u64) {
        if let Some(e) = self.counters.iter_mut().find(|e| e.0 == name) {
            e.1 += n;
        } else {
            self.counters.push((name, n));
        }
    }
}
