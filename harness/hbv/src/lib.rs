//! hbv: engine library of the hashbrown verification harness (no proptest/rand/arbitrary).
#![allow(clippy::all)]

pub mod alloc;
pub mod case;
pub mod crash;
pub mod decode;
pub mod dump;
pub mod elem;
pub mod layouts;
pub mod outcome;
pub mod par_support;
pub mod plan;
pub mod serde_elem;
pub mod telem;
pub mod watchdog;
pub mod world;

/// Interpreters instantiated against the SSE2 build of /repo.
pub mod sse {
    pub use hashbrown as hb;
    pub const BACKEND: &str = "sse2";
    include!("interp_common.rs");
    pub mod map {
        use super::*;
        include!("interp_map.rs");
    }
    pub mod table {
        use super::*;
        include!("interp_table.rs");
    }
    pub mod set {
        use super::*;
        include!("interp_set.rs");
    }
    pub mod lay {
        use super::*;
        include!("interp_lay.rs");
    }
    pub mod arith {
        use super::*;
        include!("interp_arith.rs");
    }
    pub mod serde_i {
        use super::*;
        include!("interp_serde.rs");
    }
    pub mod par {
        use super::*;
        include!("interp_par.rs");
    }
    pub mod big {
        use super::*;
        include!("interp_big.rs");
    }
}

/// Interpreters instantiated against the portable (cfg(miri)) twin of /repo.
pub mod gen {
    pub use hashbrown_generic as hb;
    pub const BACKEND: &str = "generic";
    include!("interp_common.rs");
    pub mod map {
        use super::*;
        include!("interp_map.rs");
    }
    pub mod table {
        use super::*;
        include!("interp_table.rs");
    }
    pub mod set {
        use super::*;
        include!("interp_set.rs");
    }
    pub mod lay {
        use super::*;
        include!("interp_lay.rs");
    }
    pub mod arith {
        use super::*;
        include!("interp_arith.rs");
    }
    pub mod serde_i {
        use super::*;
        include!("interp_serde.rs");
    }
    pub mod par {
        use super::*;
        include!("interp_par.rs");
    }
    pub mod big {
        use super::*;
        include!("interp_big.rs");
    }
}

pub mod specs;

/// Run a case on the back-end named in its header (`backend`: 0 = sse2, 1 = portable twin).
pub fn run_case(case: &case::Case) -> outcome::Outcome {
    match (case.kind.as_str(), case.h("backend")) {
        ("map", 0) => sse::map::run_case(case),
        ("map", _) => gen::map::run_case(case),
        ("table", 0) => sse::table::run_case(case),
        ("table", _) => gen::table::run_case(case),
        ("set", 0) => sse::set::run_case(case),
        ("set", _) => gen::set::run_case(case),
        ("lay", 0) => sse::lay::run_case(case),
        ("lay", _) => gen::lay::run_case(case),
        ("par", 0) => sse::par::run_case(case),
        ("par", _) => gen::par::run_case(case),
        ("big", 0) => sse::big::run_case(case),
        ("big", _) => gen::big::run_case(case),
        ("serde", 0) => sse::serde_i::run_case(case),
        ("serde", _) => gen::serde_i::run_case(case),
        ("arith", 2) => {
            // crash dump of the enumerating runner: both back-ends
            let o = sse::arith::run_case(case);
            if o.violation.is_some() {
                return o;
            }
            gen::arith::run_case(case)
        }
        ("arith", 0) | ("prim", 0) => sse::arith::run_case(case),
        ("arith", _) | ("prim", _) => gen::arith::run_case(case),
        _ => panic!("unknown case kind {}", case.kind),
    }
}
