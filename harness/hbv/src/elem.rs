//! Instrumented element types. `Key`/`Val` are tracked (drop glue, magic word, serial registered in
//! the World); `PKey`/`PVal` are plain `Copy` data without drop glue.

use crate::world::{self, Class, MAGIC_DEAD, MAGIC_LIVE};
use std::hash::{Hash, Hasher};

pub trait KeyT: Hash + Eq + Clone + 'static {
    const TRACKED: bool;
    fn new(id: u32, gen: u32) -> Self;
    fn id(&self) -> u32;
    fn gen(&self) -> u32;
    /// Validate a reference handed out by the collection.
    fn check(&self, what: &str);
    fn serial(&self) -> Option<u64>;
}

pub trait ValT: Clone + PartialEq + 'static {
    const TRACKED: bool;
    fn new(v: u64) -> Self;
    fn get(&self) -> u64;
    fn set(&mut self, v: u64);
    fn check(&self, what: &str);
    fn serial(&self) -> Option<u64>;
}

fn key_eq(a_id: u32, b_id: u32) -> bool {
    world::callback(Class::Eq);
    chaos_eq(a_id == b_id, a_id, b_id)
}

/// Answer of a possibly inconsistent equality: `lawful` unless the thread's chaos mode says
/// otherwise. Not counted as a callback; shared by the key types and by the caller-side eq closures
/// of the HashTable interpreter.
pub fn chaos_eq(lawful: bool, a_id: u32, b_id: u32) -> bool {
    let (mode, quiet) = world::with(|w| (w.chaos.mode, w.quiet > 0));
    if mode == 0 || quiet {
        return lawful;
    }
    match mode {
        1 | 7 => world::with(|w| {
            let c = &mut w.chaos;
            if c.eq_tape.is_empty() {
                lawful
            } else {
                let v = c.eq_tape[c.eq_pos % c.eq_tape.len()];
                c.eq_pos += 1;
                v
            }
        }),
        4 => true,
        5 => false,
        6 => {
            let (x, y) = (a_id % 3, b_id % 3);
            x == y || x + 1 == y || y + 1 == x
        }
        _ => lawful,
    }
}

// ---------------------------------------------------------------------------------------------

#[derive(Debug)]
pub struct Key {
    pub id: u32,
    pub gen: u32,
    magic: u64,
    serial: u64,
}

impl KeyT for Key {
    const TRACKED: bool = true;
    fn new(id: u32, gen: u32) -> Key {
        Key {
            id,
            gen,
            magic: MAGIC_LIVE,
            serial: world::new_serial(),
        }
    }
    fn id(&self) -> u32 {
        self.id
    }
    fn gen(&self) -> u32 {
        self.gen
    }
    fn check(&self, what: &str) {
        world::check_ref(self.serial, self.magic, what);
    }
    fn serial(&self) -> Option<u64> {
        Some(self.serial)
    }
}

impl Drop for Key {
    fn drop(&mut self) {
        world::drop_event(self.serial, self.magic);
        unsafe { std::ptr::write_volatile(&mut self.magic, MAGIC_DEAD) };
        world::callback(Class::DropK);
    }
}

impl Clone for Key {
    fn clone(&self) -> Key {
        world::callback(Class::CloneK);
        if !world::is_quiet() {
            self.check("Key::clone source");
        }
        Key::new(self.id, self.gen)
    }
}

impl PartialEq for Key {
    fn eq(&self, o: &Key) -> bool {
        key_eq(self.id, o.id)
    }
}
impl Eq for Key {}

impl Hash for Key {
    fn hash<H: Hasher>(&self, h: &mut H) {
        h.write_u32(self.id);
        h.write_u32(self.gen);
    }
}

#[derive(Debug)]
pub struct Val {
    pub v: u64,
    magic: u64,
    serial: u64,
}

impl ValT for Val {
    const TRACKED: bool = true;
    fn new(v: u64) -> Val {
        Val {
            v,
            magic: MAGIC_LIVE,
            serial: world::new_serial(),
        }
    }
    fn get(&self) -> u64 {
        self.v
    }
    fn set(&mut self, v: u64) {
        self.v = v;
    }
    fn check(&self, what: &str) {
        world::check_ref(self.serial, self.magic, what);
    }
    fn serial(&self) -> Option<u64> {
        Some(self.serial)
    }
}

impl Drop for Val {
    fn drop(&mut self) {
        world::drop_event(self.serial, self.magic);
        unsafe { std::ptr::write_volatile(&mut self.magic, MAGIC_DEAD) };
        world::callback(Class::DropV);
    }
}

impl Clone for Val {
    fn clone(&self) -> Val {
        world::callback(Class::CloneV);
        if !world::is_quiet() {
            self.check("Val::clone source");
        }
        Val::new(self.v)
    }
}

impl PartialEq for Val {
    fn eq(&self, o: &Val) -> bool {
        self.v == o.v && !world::with(|w| w.val_eq_never)
    }
}

impl Default for Val {
    fn default() -> Val {
        Val::new(0)
    }
}

// ---------------------------------------------------------------------------------------------

#[derive(Debug, Clone, Copy)]
pub struct PKey {
    pub id: u32,
    pub gen: u32,
}

impl KeyT for PKey {
    const TRACKED: bool = false;
    fn new(id: u32, gen: u32) -> PKey {
        PKey { id, gen }
    }
    fn id(&self) -> u32 {
        self.id
    }
    fn gen(&self) -> u32 {
        self.gen
    }
    fn check(&self, _what: &str) {}
    fn serial(&self) -> Option<u64> {
        None
    }
}
impl PartialEq for PKey {
    fn eq(&self, o: &PKey) -> bool {
        key_eq(self.id, o.id)
    }
}
impl Eq for PKey {}
impl Hash for PKey {
    fn hash<H: Hasher>(&self, h: &mut H) {
        h.write_u32(self.id);
        h.write_u32(self.gen);
    }
}

/// Plain value: no drop glue, but NOT `Copy`, with an observable hand-written `Clone` (a clone of
/// a collection must call it once per element) and the same NaN-like switch as `Val`.
#[derive(Debug, Default)]
pub struct PVal(pub u64);

impl Clone for PVal {
    fn clone(&self) -> PVal {
        world::callback(Class::CloneV);
        PVal(self.0)
    }
}
impl PartialEq for PVal {
    fn eq(&self, o: &PVal) -> bool {
        self.0 == o.0 && !world::with(|w| w.val_eq_never)
    }
}

impl ValT for PVal {
    const TRACKED: bool = false;
    fn new(v: u64) -> PVal {
        PVal(v)
    }
    fn get(&self) -> u64 {
        self.0
    }
    fn set(&mut self, v: u64) {
        self.0 = v;
    }
    fn check(&self, _what: &str) {}
    fn serial(&self) -> Option<u64> {
        None
    }
}

// ---------------------------------------------------------------------------------------------
// Equivalent borrowed form

#[derive(Debug, Clone, Copy)]
pub struct KeyRef(pub u32);

impl Hash for KeyRef {
    fn hash<H: Hasher>(&self, h: &mut H) {
        h.write_u32(self.0);
        h.write_u32(0);
    }
}

impl hashbrown::Equivalent<Key> for KeyRef {
    fn equivalent(&self, k: &Key) -> bool {
        key_eq(self.0, k.id)
    }
}
impl hashbrown::Equivalent<PKey> for KeyRef {
    fn equivalent(&self, k: &PKey) -> bool {
        key_eq(self.0, k.id)
    }
}

/// Unsized equivalent borrowed form: the key id is the *length* of the slice. Slices for different
/// ids cut from one buffer all start at the same address (a key and its prefix are different keys).
#[repr(transparent)]
pub struct KeyLen(pub [u8]);

pub static KEYLEN_BUF: [u8; 1 << 12] = [0; 1 << 12];

impl KeyLen {
    /// `None` when the id does not fit the shared buffer.
    pub fn of(id: u32) -> Option<&'static KeyLen> {
        let s = KEYLEN_BUF.get(..id as usize)?;
        // SAFETY: KeyLen is repr(transparent) over [u8]
        Some(unsafe { &*(s as *const [u8] as *const KeyLen) })
    }
}

impl Hash for KeyLen {
    fn hash<H: Hasher>(&self, h: &mut H) {
        h.write_u32(self.0.len() as u32);
        h.write_u32(0);
    }
}

impl hashbrown::Equivalent<Key> for KeyLen {
    fn equivalent(&self, k: &Key) -> bool {
        key_eq(self.0.len() as u32, k.id)
    }
}
impl hashbrown::Equivalent<PKey> for KeyLen {
    fn equivalent(&self, k: &PKey) -> bool {
        key_eq(self.0.len() as u32, k.id)
    }
}

thread_local! {
    /// `gen` given to keys created through `From<&KeyRef>` (entry_ref).
    pub static PENDING_GEN: std::cell::Cell<u32> = const { std::cell::Cell::new(0) };
}

impl From<&KeyRef> for Key {
    fn from(r: &KeyRef) -> Key {
        world::callback(Class::Into);
        Key::new(r.0, PENDING_GEN.with(|g| g.get()))
    }
}
impl From<&KeyRef> for PKey {
    fn from(r: &KeyRef) -> PKey {
        world::callback(Class::Into);
        PKey::new(r.0, PENDING_GEN.with(|g| g.get()))
    }
}
