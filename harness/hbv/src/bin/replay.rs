//! hbv-replay <file>: run one text case with every oracle armed. Exit 0 held, 1 violation.
use hbv::case::Case;

#[global_allocator]
static GLOBAL: hbv::alloc::CountingGlobal = hbv::alloc::CountingGlobal;

fn main() {
    let path = std::env::args().nth(1).expect("usage: hbv-replay <case file>");
    if cfg!(miri) || std::env::var("HBV_PASSTHROUGH").is_ok() {
        // exact-size allocations: the sanitizer / Miri sees the true bounds
        hbv::alloc::set_passthrough(true);
    }
    let text = std::fs::read_to_string(&path).expect("read case file");
    let case = Case::from_text(&text, &|k| hbv::specs::specs_for(k)).expect("parse case");
    // a case of the scanner differential (C18) is evaluated on both back-ends by the runner whatever its
    // header says; a crash dump of such a case must therefore be replayed on both
    let mut out = hbv::run_case(&case);
    if out.violation.is_none() && case.h("prop") == 18 && matches!(case.kind.as_str(), "map" | "table") {
        let mut other = case.clone();
        other.set("backend", if case.h("backend") == 0 { 1 } else { 0 });
        out = hbv::run_case(&other);
    }
    match &out.violation {
        Some(v) => {
            println!("REPLAY-VIOLATION property={} kind={} step={} detail={}", v.property, v.kind, v.step, v.detail);
            std::process::exit(1);
        }
        None => {
            println!("REPLAY-OK steps={} labels={:#x}", out.steps, out.labels);
        }
    }
}
