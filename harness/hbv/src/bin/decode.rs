//! hbv-decode <flavour> <input file>: print the text form of the case a fuzz input decodes to.
fn main() {
    let a: Vec<String> = std::env::args().collect();
    let data = std::fs::read(&a[2]).expect("read input");
    let case = hbv::decode::decode(&a[1], &data);
    print!("{}", case.to_text(hbv::specs::specs_for(&case.kind)));
}
