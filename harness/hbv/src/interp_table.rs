// HashTable interpreter (explicit-hash API). Included once per back-end.
// Model: multiset of elements keyed by the caller-supplied hash (C06).

use crate::alloc::{self, CheckAlloc};
use crate::case::{frac_index, frac_to, Case, Op};
use crate::dump::{self, Bad, Dump};
use crate::outcome::Outcome;
use crate::plan::{splitmix64, Plan};
use crate::specs::table as ops;
use crate::telem::TElemT;
use crate::world::{self, Class, Injected, Quiet, Violation};
use std::panic::{catch_unwind, AssertUnwindSafe};

pub type Table<E> = hb::HashTable<E, CheckAlloc>;

#[derive(Clone, Debug, PartialEq, Eq, PartialOrd, Ord)]
pub struct TM {
    pub uid: u64,
    pub id: u32,
    pub hash: u64,
    pub payload: u64,
}

fn keep(id: u32, salt: u64, pct: u64) -> bool {
    splitmix64(id as u64 ^ salt.wrapping_mul(0x9E37_79B9)) % 100 < pct
}

pub struct TInterp<'c, E: TElemT> {
    /// never given an element or a capacity (C03: it must own no block)
    pristine: bool,
    case: &'c Case,
    pub table: Table<E>,
    pub model: Vec<TM>,
    plan: Plan,
    universe: u32,
    nh: u64,
    next_uid: u64,
    next_fresh: u32,
    pub labels: u32,
    pub out: Outcome,
    lawful: bool,
    panic_prop: &'static str,
    leak_ok: bool,
}

fn hasher<E: TElemT>(e: &E) -> u64 {
    world::callback(Class::Hash);
    // under C05 the caller-side hasher is inconsistent with the hash the element was inserted with
    crate::plan::chaos_hash(e.hash(), || e.hash().rotate_left(17) ^ e.uid())
}

impl<'c, E: TElemT> TInterp<'c, E> {
    pub fn new(case: &'c Case) -> Self {
        let plan = Plan {
            pos_rule: case.h("pos") as u32,
            pos_param: case.h("pos_p") as u32,
            tag_rule: case.h("tag") as u32,
            tag_param: case.h("tag_p") as u32,
            seed: case.h("seed"),
        };
        crate::plan::setup_chaos(case);
        let chaos = case.h("chaos") != 0;
        TInterp {
            case,
            pristine: case.h("cap") == 0,
            table: Table::with_capacity_in(case.h("cap") as usize, CheckAlloc),
            model: Vec::new(),
            plan,
            universe: (case.h_or("u", 16) as u32).max(1),
            nh: case.h_or("nh", 8).max(1),
            next_uid: 0,
            next_fresh: 0,
            labels: 0,
            out: Outcome::default(),
            lawful: !chaos,
            panic_prop: if chaos { "C05" } else { "C02" },
            leak_ok: false,
        }
    }

    fn uid(&mut self) -> u64 {
        self.next_uid += 1;
        self.next_uid
    }

    /// key argument -> (id, hash)
    fn key(&self, a: u64) -> (u32, u64) {
        let id = (a % self.universe as u64) as u32;
        let hsel = (a / self.universe as u64) % self.nh;
        (id, self.plan.hash(hsel))
    }

    fn fresh(&mut self) -> (u32, u64) {
        self.next_fresh += 1;
        let id = 1_000_000 + self.next_fresh;
        (id, self.plan.hash(self.next_fresh as u64 % self.nh))
    }

    pub fn dump_of(t: &Table<E>) -> Dump {
        conv_dump(t.verif_dump())
    }

    fn find_model(&self, id: u32, hash: u64) -> Vec<usize> {
        self.model
            .iter()
            .enumerate()
            .filter(|(_, e)| e.id == id && e.hash == hash)
            .map(|(i, _)| i)
            .collect()
    }

    fn by_uid(&self, uid: u64) -> Option<usize> {
        self.model.iter().position(|e| e.uid == uid)
    }

    fn insert_unique(&mut self, id: u32, hash: u64, payload: u64) -> Result<(), Bad> {
        let uid = self.uid();
        let st0 = alloc::stats();
        let room = self.table.capacity() - self.table.len();
        let e = self.table.insert_unique(hash, E::new(id, hash, payload, uid), hasher::<E>);
        e.get().check("insert_unique entry");
        if e.get().uid() != uid {
            bad!("C06", "insert_unique-entry", "entry of insert_unique holds uid {} want {uid}", e.get().uid());
        }
        if payload % 5 == 3 && self.case.h("transcript") == 0 {
            // take the element out again through the entry insert_unique returned and put it back
            // through the VacantEntry that remove() hands out
            let (el, vac) = e.remove();
            if el.uid() != uid {
                bad!("C06", "remove-wrong-element", "insert_unique(..).remove() returned uid {} want {uid}", el.uid());
            }
            let o2 = vac.insert(el);
            if o2.get().uid() != uid {
                bad!("C06", "vacant-insert-entry", "VacantEntry::insert entry holds uid {}", o2.get().uid());
            }
        }
        self.model.push(TM { uid, id, hash, payload });
        let st = alloc::stats();
        if room > 0 && (st.n_alloc != st0.n_alloc || st.n_dealloc != st0.n_dealloc) {
            bad!("C08", "insert-within-capacity-allocated", "insert_unique with {room} spare capacity called the allocator");
        }
        Ok(())
    }

    /// Remove the model element `mi` through find_entry().remove().
    fn remove_model(&mut self, mi: usize) -> Result<(), Bad> {
        let m = self.model[mi].clone();
        match self.table.find_entry(m.hash, |e| {
            world::callback(Class::Eq);
            e.uid() == m.uid
        }) {
            Ok(o) => {
                let (el, _vac) = o.remove();
                el.check("removed element");
                if el.uid() != m.uid {
                    bad!("C06", "remove-wrong-element", "removed uid {} want {}", el.uid(), m.uid);
                }
                self.model.remove(mi);
                self.labels |= dump::L_REMOVE_PRESENT;
            }
            Err(_) => bad!("C06", "stored-element-not-found", "element uid {} (id {}, hash {:#x}) not found by find_entry", m.uid, m.id, m.hash),
        }
        Ok(())
    }

    pub fn exec(&mut self, op: &Op) -> Result<(), Bad> {
        let a = op.a;
        if self.model.len() > self.case.h_or("size_cap", 3000) as usize && matches!(op.code, ops::FILL_TO_CAPACITY | ops::REHASH_SETUP | ops::RESERVE) {
            return Ok(());
        }
        match op.code {
            ops::INSERT_UNIQUE => {
                let (id, hash) = self.key(a[0]);
                // differential runs avoid exact duplicates: which duplicate a lookup returns may
                // legitimately differ between the scanner back-ends
                if self.case.h("nodup") == 0 || self.find_model(id, hash).is_empty() {
                    self.insert_unique(id, hash, a[1])?;
                }
            }
            ops::INSERT_DUP => {
                if !self.model.is_empty() {
                    let m = self.model[frac_index(a[0], self.model.len())].clone();
                    self.insert_unique(m.id, m.hash, a[1])?;
                }
            }
            ops::FIND => {
                let (id, hash) = self.key(a[0]);
                self.find_check(id, hash)?;
            }
            ops::FIND_MUT => {
                let (id, hash) = self.key(a[0]);
                let want = self.find_model(id, hash);
                let r = self.table.find_mut(hash, |e| {
                    world::callback(Class::Eq);
                    crate::elem::chaos_eq(e.id() == id && e.hash() == hash, e.id(), id)
                });
                match (r, want.is_empty()) {
                    (Some(e), false) => {
                        e.check("find_mut element");
                        let uid = e.uid();
                        e.set_payload(a[1]);
                        match self.by_uid(uid) {
                            Some(mi) if self.model[mi].id == id && self.model[mi].hash == hash => self.model[mi].payload = a[1],
                            _ => bad!("C06", "find-returned-unknown", "find_mut({id}, {hash:#x}) returned uid {uid} which is not a stored (id, hash) element"),
                        }
                    }
                    (None, true) => {}
                    (r, _) => bad!("C06", "find-presence", "find_mut({id}, {hash:#x}) found={} model has {}", r.is_some(), want.len()),
                }
            }
            ops::FIND_ENTRY => self.find_entry_op(a[0], a[1] % 7, a[2])?,
            ops::ENTRY => self.entry_op(a[0], a[1] % 8, a[2])?,
            ops::RETAIN => {
                let (salt, pct, mutate) = (a[0], a[1] % 101, a[2] % 2 == 1);
                let mut seen = Vec::new();
                self.table.retain(|e| {
                    world::callback(Class::Closure);
                    e.check("retain element");
                    seen.push(e.uid());
                    if mutate {
                        e.set_payload(e.payload().wrapping_add(1));
                    }
                    keep(e.id(), salt, pct)
                });
                seen.sort_unstable();
                let mut want: Vec<u64> = self.model.iter().map(|e| e.uid).collect();
                want.sort_unstable();
                if seen != want {
                    bad!("C10", "retain-predicate-calls", "retain saw uids {:?}, stored {:?}", seen, want);
                }
                self.model.retain(|e| keep(e.id, salt, pct));
                if mutate {
                    for e in self.model.iter_mut() {
                        e.payload = e.payload.wrapping_add(1);
                    }
                }
            }
            ops::EXTRACT_IF => self.extract_if_op(a[0], a[1] % 101, a[2], a[3] % 2 == 1)?,
            ops::DRAIN => self.drain_op(a[0], a[1])?,
            ops::CLEAR => {
                let before = self.table.allocation_size();
                self.table.clear();
                self.model.clear();
                if self.table.allocation_size() != before {
                    bad!("C08", "clear-changed-allocation", "clear: allocation_size {} -> {}", before, self.table.allocation_size());
                }
            }
            ops::RESERVE => {
                let n = (a[0] % 97) as usize;
                self.table.reserve(n, hasher::<E>);
                if self.table.capacity() < self.table.len() + n {
                    bad!("C08", "reserve-capacity", "after reserve({n}): capacity {} < len {} + {n}", self.table.capacity(), self.table.len());
                }
            }
            ops::TRY_RESERVE => {
                let n = (a[0] % 97) as usize;
                match self.table.try_reserve(n, hasher::<E>) {
                    Ok(()) => {
                        if self.table.capacity() < self.table.len() + n {
                            bad!("C12", "try_reserve-capacity", "after try_reserve({n}): capacity {} < len {} + {n}", self.table.capacity(), self.table.len());
                        }
                    }
                    Err(e) => bad!("C12", "try_reserve-spurious-error", "try_reserve({n}) on a granting allocator: {e:?}"),
                }
            }
            ops::SHRINK_TO_FIT | ops::SHRINK_TO => {
                let prev_cap = self.table.capacity();
                let prev_size = self.table.allocation_size();
                let len = self.table.len();
                let m = if op.code == ops::SHRINK_TO { frac_to(a[0], 2 * prev_cap + 2) } else { 0 };
                if op.code == ops::SHRINK_TO {
                    self.table.shrink_to(m, hasher::<E>);
                } else {
                    self.table.shrink_to_fit(hasher::<E>);
                }
                let cap = self.table.capacity();
                let size = self.table.allocation_size();
                if size > prev_size {
                    bad!("C08", "shrink-enlarged", "shrink_to({m}): allocation {} -> {}", prev_size, size);
                }
                if cap < len.max(m.min(prev_cap)) {
                    bad!("C08", "shrink-capacity", "shrink_to({m}): capacity {cap} < max(len {len}, min(m, prev {prev_cap}))");
                }
                if len == 0 && m == 0 && size != 0 {
                    bad!("C08", "shrink-empty-keeps-block", "shrink_to(0) of an empty table left {size} bytes");
                }
                if !(len == 0 && m == 0) {
                    let fresh: Table<E> = Table::with_capacity_in(len.max(m), CheckAlloc);
                    let fs = fresh.allocation_size();
                    drop(fresh);
                    if size > fs {
                        bad!("C08", "shrink-not-tight", "shrink_to({m}) len {len}: allocation {size} > fresh with_capacity = {fs}");
                    }
                }
            }
            ops::GET_MANY_MUT => self.get_many_op(&a)?,
            ops::ITER_HASH => self.iter_hash_op(a[0], a[1] % 2 == 1)?,
            ops::ITER => self.iter_op(a[0] % 3, a[1], a[2] % 6)?,
            ops::CLONE_SWAP => {
                let c = self.table.clone();
                {
                    let _q = Quiet::new();
                    let mut x: Vec<(u32, u64, u64)> = c.iter().map(|e| (e.id(), e.hash(), e.payload())).collect();
                    let mut y: Vec<(u32, u64, u64)> = self.table.iter().map(|e| (e.id(), e.hash(), e.payload())).collect();
                    x.sort_unstable();
                    y.sort_unstable();
                    if x != y {
                        bad!("C11", "clone-not-equal", "clone of a HashTable holds different contents");
                    }
                    if E::TRACKED {
                        let sx: Vec<Option<u64>> = c.iter().map(|e| e.serial()).collect();
                        if self.table.iter().any(|e| sx.contains(&e.serial())) {
                            bad!("C11", "clone-shares-elements", "clone holds the same element objects");
                        }
                    }
                }
                if a[0] % 2 == 0 {
                    self.table = c;
                } else {
                    let mut c = c;
                    if Self::dump_of(&c).n_deleted() > 0 {
                        self.labels |= dump::L_CLONE_FROM_DIFF;
                    }
                    c.clone_from(&self.table);
                    self.table = c;
                }
            }
            ops::FILL_TO_CAPACITY => {
                let room = (self.table.capacity() - self.table.len()).min(4096);
                for _ in 0..room {
                    let (id, hash) = self.fresh();
                    self.insert_unique(id, hash, id as u64)?;
                }
            }
            ops::REMOVE_RUN => {
                let d = Self::dump_of(&self.table);
                if !d.is_singleton {
                    let b = d.buckets();
                    let start = frac_index(a[0], b);
                    let mut uids = Vec::new();
                    for j in 0..b {
                        if uids.len() >= (a[1] % 41) as usize {
                            break;
                        }
                        if let Some(e) = self.table.verif_bucket((start + j) & d.bucket_mask) {
                            uids.push(e.uid());
                        }
                    }
                    for u in uids {
                        if let Some(mi) = self.by_uid(u) {
                            self.remove_model(mi)?;
                        }
                    }
                }
            }
            ops::REMOVE_ALL_BUT => {
                let n = (a[0] % 13) as usize;
                while self.model.len() > n {
                    self.remove_model(0)?;
                }
            }
            ops::REHASH_SETUP => {
                self.exec(&Op::new(ops::FILL_TO_CAPACITY, &[]))?;
                let d = Self::dump_of(&self.table);
                if !d.is_singleton {
                    let keepn = (d.max_load() / 2).saturating_sub(1 + (a[0] % 7) as usize);
                    while self.model.len() > keepn {
                        self.remove_model(0)?;
                    }
                }
            }
            ops::REMOVE_NTH => {
                if !self.model.is_empty() {
                    self.remove_model(frac_index(a[0], self.model.len()))?;
                }
            }
            _ => {}
        }
        Ok(())
    }

    fn find_check(&self, id: u32, hash: u64) -> Result<(), Bad> {
        let want = self.find_model(id, hash);
        let r = self.table.find(hash, |e| {
            world::callback(Class::Eq);
            crate::elem::chaos_eq(e.id() == id && e.hash() == hash, e.id(), id)
        });
        match (r, want.is_empty()) {
            (Some(e), false) => {
                e.check("find element");
                let uid = e.uid();
                match self.by_uid(uid) {
                    Some(mi) if self.model[mi].id == id && self.model[mi].hash == hash => {
                        if self.model[mi].payload != e.payload() {
                            bad!("C06", "find-payload", "find({id}, {hash:#x}) uid {uid} payload {} model {}", e.payload(), self.model[mi].payload);
                        }
                    }
                    _ => bad!("C06", "find-returned-removed-or-unknown", "find({id}, {hash:#x}) returned uid {uid} which is not stored"),
                }
            }
            (None, true) => {}
            (r, _) => bad!("C06", "find-presence", "find({id}, {hash:#x}) found={} but {} stored elements were inserted with that hash and id", r.is_some(), want.len()),
        }
        Ok(())
    }

    fn find_entry_op(&mut self, key: u64, act: u64, payload: u64) -> Result<(), Bad> {
        let (id, hash) = self.key(key);
        let want = self.find_model(id, hash);
        let new_uid = self.uid();
        let r = self.table.find_entry(hash, |e| {
            world::callback(Class::Eq);
            crate::elem::chaos_eq(e.id() == id && e.hash() == hash, e.id(), id)
        });
        match r {
            Ok(mut o) => {
                if want.is_empty() {
                    bad!("C06", "find-presence", "find_entry({id}, {hash:#x}) is Occupied, nothing stored");
                }
                o.get().check("find_entry element");
                let uid = o.get().uid();
                let Some(mi) = self.model.iter().position(|e| e.uid == uid && e.id == id && e.hash == hash) else {
                    bad!("C06", "find-returned-removed-or-unknown", "find_entry({id}, {hash:#x}) returned uid {uid} which is not stored");
                };
                match act {
                    0 => {
                        if o.get().payload() != self.model[mi].payload {
                            bad!("C06", "find-payload", "uid {uid}: payload {} model {}", o.get().payload(), self.model[mi].payload);
                        }
                    }
                    1 => {
                        o.get_mut().set_payload(payload);
                        self.model[mi].payload = payload;
                    }
                    2 => {
                        let r = o.into_mut();
                        r.check("into_mut element");
                        r.set_payload(payload);
                        self.model[mi].payload = payload;
                    }
                    3 | 4 | 5 => {
                        let (el, vac) = o.remove();
                        el.check("removed element");
                        if el.uid() != uid {
                            bad!("C06", "remove-wrong-element", "removed uid {} want {uid}", el.uid());
                        }
                        self.model.remove(mi);
                        self.labels |= dump::L_REMOVE_PRESENT;
                        let nid_dup = {
                            let nid = (payload % self.universe as u64) as u32;
                            self.case.h("nodup") != 0 && self.model.iter().any(|e| e.id == nid && e.hash == hash)
                        };
                        match if nid_dup && act == 4 { 3 } else { act } {
                            3 => drop(vac),
                            4 => {
                                // re-insert a new element with the same hash through the returned VacantEntry
                                let nid = (payload % self.universe as u64) as u32;
                                let o2 = vac.insert(E::new(nid, hash, payload, new_uid));
                                o2.get().check("reinserted element");
                                if o2.get().uid() != new_uid {
                                    bad!("C06", "vacant-insert-entry", "VacantEntry::insert entry holds uid {}", o2.get().uid());
                                }
                                self.model.push(TM { uid: new_uid, id: nid, hash, payload });
                                self.labels |= dump::L_REINSERT_VACANT;
                            }
                            _ => {
                                let t = vac.into_table();
                                let o2 = t.insert_unique(hash, E::new(id, hash, payload, new_uid), hasher::<E>);
                                o2.get().check("insert_unique after into_table");
                                self.model.push(TM { uid: new_uid, id, hash, payload });
                            }
                        }
                    }
                    _ => {
                        let t = o.into_table();
                        if t.len() != self.model.len() {
                            bad!("C06", "len", "into_table().len() {} model {}", t.len(), self.model.len());
                        }
                    }
                }
            }
            Err(absent) => {
                if !want.is_empty() {
                    bad!("C06", "find-presence", "find_entry({id}, {hash:#x}) is Absent but {} such elements are stored", want.len());
                }
                let t = absent.into_table();
                if act % 2 == 1 {
                    let o2 = t.insert_unique(hash, E::new(id, hash, payload, new_uid), hasher::<E>);
                    o2.get().check("insert_unique after absent");
                    self.model.push(TM { uid: new_uid, id, hash, payload });
                }
            }
        }
        Ok(())
    }

    fn entry_op(&mut self, key: u64, act: u64, payload: u64) -> Result<(), Bad> {
        use hb::hash_table::Entry;
        let (id, hash) = self.key(key);
        let want = self.find_model(id, hash);
        let new_uid = self.uid();
        let pre = Self::dump_of(&self.table);
        if !pre.is_singleton && pre.growth_left == 0 {
            self.labels |= dump::L_ENTRY_AT_FULL;
        }
        let e = self.table.entry(
            hash,
            |e| {
                world::callback(Class::Eq);
                crate::elem::chaos_eq(e.id() == id && e.hash() == hash, e.id(), id)
            },
            hasher::<E>,
        );
        let occupied_uid = match &e {
            Entry::Occupied(o) => {
                o.get().check("entry element");
                Some(o.get().uid())
            }
            Entry::Vacant(_) => None,
        };
        let mi = match occupied_uid {
            Some(uid) => {
                if want.is_empty() {
                    bad!("C06", "entry-discriminant", "entry({id}, {hash:#x}) is Occupied, nothing stored");
                }
                match self.model.iter().position(|m| m.uid == uid && m.id == id && m.hash == hash) {
                    Some(mi) => Some(mi),
                    None => bad!("C06", "find-returned-removed-or-unknown", "entry({id}, {hash:#x}) returned uid {uid} which is not stored"),
                }
            }
            None => {
                if !want.is_empty() {
                    bad!("C06", "entry-discriminant", "entry({id}, {hash:#x}) is Vacant but {} such elements are stored", want.len());
                }
                None
            }
        };
        let model = &mut self.model;
        match act {
            0 | 1 => {
                let o = if act == 0 {
                    e.or_insert(E::new(id, hash, payload, new_uid))
                } else {
                    e.or_insert_with(|| {
                        world::callback(Class::Closure);
                        E::new(id, hash, payload, new_uid)
                    })
                };
                o.get().check("or_insert entry");
                match mi {
                    Some(mi) => {
                        if o.get().uid() != model[mi].uid {
                            bad!("C06", "or_insert-replaced", "or_insert on an occupied entry now holds uid {}", o.get().uid());
                        }
                    }
                    None => {
                        if o.get().uid() != new_uid {
                            bad!("C06", "or_insert-entry", "or_insert entry holds uid {}", o.get().uid());
                        }
                        model.push(TM { uid: new_uid, id, hash, payload });
                    }
                }
            }
            2 => {
                let o = e
                    .and_modify(|x| {
                        world::callback(Class::Closure);
                        x.set_payload(payload)
                    })
                    .or_insert(E::new(id, hash, payload.wrapping_add(1), new_uid));
                match mi {
                    Some(mi) => {
                        model[mi].payload = payload;
                        if o.get().payload() != payload {
                            bad!("C06", "and_modify", "and_modify result payload {}", o.get().payload());
                        }
                    }
                    None => model.push(TM { uid: new_uid, id, hash, payload: payload.wrapping_add(1) }),
                }
            }
            3 => {
                // Entry::insert replaces an occupied element by the new value
                let o = e.insert(E::new(id, hash, payload, new_uid));
                if o.get().uid() != new_uid {
                    bad!("C06", "entry-insert", "Entry::insert entry holds uid {}", o.get().uid());
                }
                if let Some(mi) = mi {
                    model.remove(mi);
                }
                model.push(TM { uid: new_uid, id, hash, payload });
            }
            _ => match e {
                Entry::Occupied(o) => {
                    let mi = mi.unwrap();
                    match act {
                        4 => {
                            let (el, vac) = o.remove();
                            if el.uid() != model[mi].uid {
                                bad!("C06", "remove-wrong-element", "removed uid {}", el.uid());
                            }
                            model.remove(mi);
                            let o2 = vac.insert(E::new(id, hash, payload, new_uid));
                            o2.get().check("reinserted element");
                            model.push(TM { uid: new_uid, id, hash, payload });
                            self.labels |= dump::L_REINSERT_VACANT | dump::L_REMOVE_PRESENT;
                        }
                        5 => {
                            let (el, vac) = o.remove();
                            if el.uid() != model[mi].uid {
                                bad!("C06", "remove-wrong-element", "removed uid {}", el.uid());
                            }
                            model.remove(mi);
                            drop(vac);
                            self.labels |= dump::L_REMOVE_PRESENT;
                        }
                        _ => {
                            let r = o.into_mut();
                            r.set_payload(payload);
                            model[mi].payload = payload;
                        }
                    }
                }
                Entry::Vacant(vac) => match act {
                    4 | 6 => {
                        let o = vac.insert(E::new(id, hash, payload, new_uid));
                        o.get().check("vacant insert entry");
                        model.push(TM { uid: new_uid, id, hash, payload });
                    }
                    5 => drop(vac),
                    _ => {
                        let t = vac.into_table();
                        if t.len() != model.len() {
                            bad!("C06", "len", "into_table().len() {} model {}", t.len(), model.len());
                        }
                    }
                },
            },
        }
        Ok(())
    }

    fn extract_if_op(&mut self, salt: u64, pct: u64, frac: u64, mutate: bool) -> Result<(), Bad> {
        let total = self.model.len();
        let selected = self.model.iter().filter(|e| !keep(e.id, salt, pct)).count();
        let take = frac_to(frac, selected + 1);
        if selected > 0 && selected < total && take > 0 && take < selected {
            self.labels |= dump::L_EXTRACT_CUT;
        }
        let mut visited: Vec<u64> = Vec::new();
        let mut yielded: Vec<u64> = Vec::new();
        {
            let mut ex = self.table.extract_if(|e| {
                world::callback(Class::Closure);
                e.check("extract_if element");
                visited.push(e.uid());
                if mutate {
                    e.set_payload(e.payload().wrapping_add(7));
                }
                !keep(e.id(), salt, pct)
            });
            for _ in 0..take {
                match ex.next() {
                    Some(e) => {
                        e.check("extract_if yielded");
                        yielded.push(e.uid());
                    }
                    None => break,
                }
            }
        }
        let mut vs = visited.clone();
        vs.sort_unstable();
        if vs.windows(2).any(|w| w[0] == w[1]) {
            bad!("C10", "extract_if-visited-twice", "predicate saw an element twice");
        }
        let mut want_yield = Vec::new();
        for u in &visited {
            let Some(mi) = self.by_uid(*u) else {
                bad!("C10", "extract_if-visited-unknown", "predicate saw uid {u} which is not stored");
            };
            if mutate {
                self.model[mi].payload = self.model[mi].payload.wrapping_add(7);
            }
            if !keep(self.model[mi].id, salt, pct) {
                want_yield.push(*u);
            }
        }
        if want_yield != yielded {
            bad!("C10", "extract_if-yield", "yielded {:?}, selected among visited {:?}", yielded, want_yield);
        }
        self.model.retain(|e| !yielded.contains(&e.uid));
        Ok(())
    }

    fn drain_op(&mut self, frac: u64, cont: u64) -> Result<(), Bad> {
        let total = self.model.len();
        let prefix = frac_to(frac, total);
        // dropped early, or consumed by next / fold / for_each / count
        let cont = if cont % 2 == 0 { 5 } else { [0, 1, 2, 4][((frac >> 3) % 4) as usize] };
        if prefix > 0 && prefix < total && cont == 5 {
            self.labels |= dump::L_DRAIN_CUT;
        }
        let size_before = self.table.allocation_size();
        let want: Vec<(u64, u64)> = self.model.iter().map(|e| (e.uid, e.payload)).collect();
        self.model.clear();
        let (got, c) = drive_iter(self.table.drain(), total, prefix, cont, None, "table drain", |e| {
            e.check("drain element");
            (e.uid(), e.payload())
        })?;
        compare_yield(got, want, c, "table drain").map_err(|b| ("C10", b.1, b.2))?;
        if !self.table.is_empty() {
            bad!("C10", "drain-leaves-elements", "after drain the table has len {}", self.table.len());
        }
        if self.table.allocation_size() != size_before {
            bad!("C10", "drain-changed-allocation", "drain: allocation_size {} -> {}", size_before, self.table.allocation_size());
        }
        Ok(())
    }

    fn iter_op(&mut self, kind: u64, frac: u64, cont: u64) -> Result<(), Bad> {
        let total = self.model.len();
        let prefix = frac_to(frac, total);
        let want: Vec<(u64, u64)> = self.model.iter().map(|e| (e.uid, e.payload)).collect();
        match kind {
            0 => {
                let cont = if cont == 5 { 0 } else { cont };
                let it = if frac & 1 == 1 { (&self.table).into_iter() } else { self.table.iter() };
                let (got, c) = drive_iter(it, total, prefix, cont, Some(&|i: &hb::hash_table::Iter<'_, E>| i.clone()), "table iter", |e| {
                    e.check("iter element");
                    (e.uid(), e.payload())
                })?;
                compare_yield(got, want, c, "table iter")?;
                let d = hb::hash_table::Iter::<E>::default();
                if d.len() != 0 || d.clone().next().is_some() {
                    bad!("C09", "default-iter-not-empty", "hash_table::Iter::default() is not empty");
                }
            }
            1 => {
                let cont = if cont == 5 { 0 } else { cont };
                let mutate = cont != 4;
                let mut touched = Vec::new();
                let it = if frac & 1 == 1 { (&mut self.table).into_iter() } else { self.table.iter_mut() };
                let (got, c) = drive_iter(it, total, prefix, cont, None, "table iter_mut", |e| {
                    e.check("iter_mut element");
                    let old = e.payload();
                    if mutate {
                        e.set_payload(old.wrapping_add(3));
                        touched.push(e.uid());
                    }
                    (e.uid(), old)
                })?;
                compare_yield(got, want, c, "table iter_mut")?;
                for u in touched {
                    if let Some(mi) = self.by_uid(u) {
                        self.model[mi].payload = self.model[mi].payload.wrapping_add(3);
                    }
                }
                let mut d = hb::hash_table::IterMut::<E>::default();
                if d.len() != 0 || d.next().is_some() {
                    bad!("C09", "default-iter-not-empty", "hash_table::IterMut::default() is not empty");
                }
            }
            _ => {
                self.model.clear();
                let old = std::mem::replace(&mut self.table, Table::new_in(CheckAlloc));
                let (got, c) = drive_iter(old.into_iter(), total, prefix, cont, None, "table into_iter", |e| {
                    e.check("into_iter element");
                    (e.uid(), e.payload())
                })?;
                compare_yield(got, want, c, "table into_iter")?;
                let mut d = hb::hash_table::IntoIter::<E, CheckAlloc>::default();
                if d.len() != 0 || d.next().is_some() {
                    bad!("C09", "default-iter-not-empty", "hash_table::IntoIter::default() is not empty");
                }
            }
        }
        Ok(())
    }

    fn iter_hash_op(&mut self, key: u64, mutate: bool) -> Result<(), Bad> {
        let (_, hash) = self.key(key);
        let d = Self::dump_of(&self.table);
        if d.probe_shape(hash).0 > 1 {
            self.labels |= dump::L_ITER_HASH_LONG;
        }
        let mut got: Vec<u64> = Vec::new();
        if mutate {
            for e in self.table.iter_hash_mut(hash) {
                e.check("iter_hash_mut element");
                got.push(e.uid());
                if e.hash() == hash {
                    e.set_payload(e.payload().wrapping_add(11));
                }
                if got.len() > self.model.len() + 4 {
                    break;
                }
            }
            let mut dflt = hb::hash_table::IterHashMut::<E>::default();
            if dflt.next().is_some() {
                bad!("C09", "default-iter-not-empty", "IterHashMut::default() is not empty");
            }
        } else {
            for e in self.table.iter_hash(hash) {
                e.check("iter_hash element");
                got.push(e.uid());
                if got.len() > self.model.len() + 4 {
                    break;
                }
            }
            let mut dflt = hb::hash_table::IterHash::<E>::default();
            if dflt.next().is_some() {
                bad!("C09", "default-iter-not-empty", "IterHash::default() is not empty");
            }
        }
        // the same iteration consumed through fold (count / for_each use it) and through a clone
        let folded = self.table.iter_hash(hash).fold(Vec::new(), |mut acc, e| {
            acc.push(e.uid());
            acc
        });
        let counted = self.table.iter_hash(hash).count();
        let cloned: Vec<u64> = {
            let mut it = self.table.iter_hash(hash);
            let _first = it.next();
            let it2 = it.clone();
            _first.into_iter().chain(it2).map(|e| e.uid()).collect()
        };
        if !mutate && (folded != got || counted != got.len() || cloned != got) {
            bad!("C09", "fold-count", "iter_hash({hash:#x}): next() yields {} elements, fold {}, count() {counted}, a clone taken after the first element {}", got.len(), folded.len(), cloned.len());
        }
        let mut s = got.clone();
        s.sort_unstable();
        if s.windows(2).any(|w| w[0] == w[1]) {
            bad!("C06", "iter_hash-duplicate", "iter_hash({hash:#x}) yielded an element twice: {:?}", got);
        }
        for u in &got {
            if self.by_uid(*u).is_none() {
                bad!("C06", "iter_hash-unknown", "iter_hash({hash:#x}) yielded uid {u} which is not stored");
            }
        }
        for m in self.model.iter_mut() {
            if m.hash == hash {
                if !got.contains(&m.uid) {
                    bad!("C06", "iter_hash-missed", "iter_hash({hash:#x}) did not yield stored element uid {} inserted with that hash", m.uid);
                }
                if mutate {
                    m.payload = m.payload.wrapping_add(11);
                }
            }
        }
        Ok(())
    }

    fn get_many_op(&mut self, a: &[u64; crate::case::MAX_ARGS]) -> Result<(), Bad> {
        let mut n = (a[0] % 5) as usize;
        if n == 4 && a[1] % 3 == 0 {
            // a long request list: 9 or 12 keys derived from the four arguments
            n = if a[2] % 2 == 0 { 9 } else { 12 };
        }
        let keys: Vec<(u32, u64)> = (0..n).map(|i| self.key(a[1 + i % 4].wrapping_add((i / 4) as u64 * 7))).collect();
        // a[5]: equality mode. 0 = exact (id, hash); 1 = by id only (may match several entries)
        // (differential runs use exact closures only: which of several matching entries an id-only
        // closure resolves to may legitimately differ between the scanner back-ends)
        let by_id_only = a[5] % 2 == 1 && self.case.h("nodup") == 0;
        // the entry each request resolves to cannot be predicted when several entries match; the
        // oracle is stated on what came back: same address twice => must have panicked.
        let mut present_exact: Vec<Vec<usize>> = Vec::new();
        for (id, hash) in &keys {
            present_exact.push(self.find_model(*id, *hash));
        }
        let mut must_panic = false;
        if !by_id_only {
            for i in 0..n {
                for j in 0..i {
                    if keys[i] == keys[j] && present_exact[i].len() == 1 {
                        must_panic = true;
                    }
                }
            }
        }
        let n_present = present_exact.iter().filter(|p| !p.is_empty()).count();
        if must_panic || (n >= 2 && n_present >= 2) {
            self.labels |= dump::L_MANY_MUT;
        }
        let hashes: Vec<u64> = keys.iter().map(|k| k.1).collect();
        type R = Vec<Option<(usize, u64, u64)>>;
        let table = &mut self.table;
        let keys_ref = &keys;
        macro_rules! call {
            ($n:literal) => {{
                let hs: [u64; $n] = std::array::from_fn(|i| hashes[i]);
                catch_unwind(AssertUnwindSafe(|| -> R {
                    let r = table.get_many_mut(hs, |i, e| {
                        world::callback(Class::Eq);
                        let lawful = if by_id_only { e.id() == keys_ref[i].0 } else { e.id() == keys_ref[i].0 && e.hash() == keys_ref[i].1 };
                        crate::elem::chaos_eq(lawful, e.id(), keys_ref[i].0)
                    });
                    r.into_iter()
                        .enumerate()
                        .map(|(i, o)| {
                            o.map(|e| {
                                e.check("get_many_mut element");
                                let old = e.payload();
                                // write a distinct sentinel through every returned reference
                                e.set_payload(0x5E47_0000 + i as u64);
                                (e as *mut E as usize, e.uid(), old)
                            })
                        })
                        .collect()
                }))
            }};
        }
        let r = match n {
            0 => call!(0),
            1 => call!(1),
            2 => call!(2),
            3 => call!(3),
            4 => call!(4),
            9 => call!(9),
            _ => call!(12),
        };
        match r {
            Err(p) => {
                if p.downcast_ref::<Injected>().is_some() {
                    std::panic::resume_unwind(p);
                }
                drop(p);
                world::clear_panic_messages();
                // a panic is legitimate only if two requests can resolve to the same entry
                let mut can_alias = false;
                for i in 0..n {
                    for j in 0..i {
                        let same_req = if by_id_only { keys[i].0 == keys[j].0 } else { keys[i] == keys[j] };
                        if same_req || by_id_only {
                            // by-id closures may resolve two different hashes to one entry only if the ids agree
                            if keys[i].0 == keys[j].0 {
                                can_alias = true;
                            }
                        }
                    }
                }
                if !can_alias {
                    bad!("C15", "get_many_mut-spurious-panic", "HashTable::get_many_mut({:?}) panicked although no two requests can resolve to one entry", keys);
                }
            }
            Ok(res) => {
                if must_panic {
                    bad!("C15", "get_many_mut-aliasing", "HashTable::get_many_mut({:?}) returned although two requests name the same single entry", keys);
                }
                for i in 0..res.len() {
                    for j in 0..i {
                        if let (Some(x), Some(y)) = (&res[i], &res[j]) {
                            if x.0 == y.0 || x.1 == y.1 {
                                bad!("C15", "get_many_mut-aliasing", "requests {j} and {i} returned the same entry (address {:#x}, uid {})", x.0, x.1);
                            }
                        }
                    }
                    match &res[i] {
                        Some((_, uid, payload)) => {
                            let Some(mi) = self.model.iter().position(|m| m.uid == *uid) else {
                                bad!("C15", "get_many_mut-unknown", "request {i} returned uid {uid} which is not stored");
                            };
                            let m = &self.model[mi];
                            let ok = if by_id_only { m.id == keys[i].0 } else { m.id == keys[i].0 && m.hash == keys[i].1 };
                            if !ok || m.payload != *payload {
                                bad!("C15", "get_many_mut-wrong-entry", "request {i} {:?} returned element {:?}", keys[i], m);
                            }
                        }
                        None => {
                            if !by_id_only && !present_exact[i].is_empty() {
                                bad!("C15", "get_many_mut-presence", "request {i} {:?} returned None but such an element is stored", keys[i]);
                            }
                        }
                    }
                }
                // the sentinels written through the references must have landed in exactly those entries
                for (i, r) in res.iter().enumerate() {
                    if let Some((_, uid, _)) = r {
                        if let Some(mi) = self.model.iter().position(|m| m.uid == *uid) {
                            self.model[mi].payload = 0x5E47_0000 + i as u64;
                        }
                    }
                }
            }
        }
        Ok(())
    }

    // -----------------------------------------------------------------------------------------

    pub fn check_state(&mut self) -> Result<(), Bad> {
        if let Some(v) = world::take_violation() {
            return Err((v.property, Box::leak(v.kind.into_boxed_str()), v.detail));
        }
        let d = Self::dump_of(&self.table);
        d.validate(true)?;
        if self.pristine && !d.is_singleton {
            bad!("C03", "unallocated-collection-owns-block", "a table that was never given an element or a capacity owns a block of {} buckets", d.buckets());
        }
        let asz = self.table.allocation_size();
        let want_sz = if d.is_singleton { 0 } else { d.predicted_block().1 };
        if asz != want_sz {
            bad!("C08", "allocation_size", "allocation_size() = {asz}, block held = {want_sz}");
        }
        if self.table.capacity() < self.table.len() {
            bad!("C08", "capacity-below-len", "capacity {} < len {}", self.table.capacity(), self.table.len());
        }
        let _q = Quiet::new();
        if self.lawful {
            for i in d.full_indices() {
                let Some(e) = self.table.verif_bucket(i) else {
                    bad!("C02", "full-slot-without-element", "slot {i}");
                };
                e.check("stored element");
                d.check_slot(i, e.hash()).map_err(|b| ("C06", b.1, b.2))?;
            }
            let mut got: Vec<(u64, u32, u64, u64)> = self.table.iter().map(|e| (e.uid(), e.id(), e.hash(), e.payload())).collect();
            got.sort_unstable();
            let mut want: Vec<(u64, u32, u64, u64)> = self.model.iter().map(|e| (e.uid, e.id, e.hash, e.payload)).collect();
            want.sort_unstable();
            if got != want {
                let extra: Vec<_> = got.iter().filter(|g| !want.contains(g)).take(3).collect();
                let missing: Vec<_> = want.iter().filter(|w| !got.contains(w)).take(3).collect();
                bad!("C06", "contents-differ", "table holds {} elements, model {}; not in model {:?}; missing {:?} (uid, id, hash, payload)", got.len(), want.len(), extra, missing);
            }
            if self.table.len() != self.model.len() {
                bad!("C06", "len", "len() {} model {} (duplicates counted)", self.table.len(), self.model.len());
            }
            // every stored element is found by a lookup with its hash
            for m in &self.model {
                let r = self.table.find(m.hash, |e| e.uid() == m.uid);
                if r.is_none() {
                    bad!("C06", "stored-element-not-found", "element uid {} (id {}, hash {:#x}) is not returned by find with its hash", m.uid, m.id, m.hash);
                }
            }
        } else {
            let n = self.table.iter().count();
            if n != self.table.len() {
                bad!("C05", "len-vs-iter", "len() {} but iter() yields {n}", self.table.len());
            }
        }
        let st = alloc::stats();
        let exp = if d.is_singleton { 0 } else { 1 };
        if st.n_live != exp && !(self.leak_ok && st.n_live >= exp) {
            bad!("C03", "block-accounting", "ledger holds {} blocks, the table owns {exp}", st.n_live);
        }
        alloc::check_zones(false);
        if let Some(v) = world::take_violation() {
            return Err((v.property, Box::leak(v.kind.into_boxed_str()), v.detail));
        }
        Ok(())
    }

    /// see the map interpreter
    fn track_pristine(&mut self, op: &Op) {
        let a = op.a;
        match op.code {
            ops::FIND | ops::FIND_MUT | ops::RETAIN | ops::EXTRACT_IF | ops::DRAIN | ops::CLEAR | ops::SHRINK_TO_FIT | ops::GET_MANY_MUT
            | ops::ITER_HASH | ops::CLONE_SWAP | ops::FILL_TO_CAPACITY | ops::REMOVE_RUN | ops::REMOVE_ALL_BUT | ops::REMOVE_NTH => {}
            ops::RESERVE | ops::TRY_RESERVE if a[0] % 97 == 0 => {}
            // into_iter replaces the table by a new, never-used one
            ops::ITER => {
                if a[0] % 3 == 2 {
                    self.pristine = true;
                }
            }
            _ => self.pristine = false,
        }
    }

    fn to_violation(&self, step: usize, b: Bad) -> Violation {
        Violation {
            property: b.0,
            kind: b.1.to_string(),
            step,
            detail: b.2,
        }
    }

    pub fn step(&mut self, step: usize, op: &Op) -> Result<(), Violation> {
        if self.case.header.get("fault_step").copied() == Some(step as u64) {
            return self.faulted_step(step, op);
        }
        alloc::begin_op();
        let before = Self::dump_of(&self.table);
        world::clear_panic_messages();
        let counts0 = world::counts();
        let r = catch_unwind(AssertUnwindSafe(|| self.exec(op)));
        let counts1 = world::counts();
        self.track_pristine(op);
        match r {
            Err(payload) => {
                let msg = world::last_panic_message().unwrap_or_else(|| "<no message>".into());
                drop(payload);
                return Err(Violation {
                    property: self.panic_prop,
                    kind: "unexpected-panic".into(),
                    step,
                    detail: format!("operation panicked: {msg}"),
                });
            }
            Ok(Err(b)) => {
                if !self.lawful && !matches!(b.0, "C02" | "C03" | "C05" | "C13") {
                    // inconsistent answers: lookup results are unspecified; resynchronise
                    self.resync();
                } else {
                    return Err(self.to_violation(step, b));
                }
            }
            Ok(Ok(())) => {}
        }
        if let Err(b) = self.check_state() {
            return Err(self.to_violation(step, b));
        }
        if !self.lawful {
            self.resync();
        }
        if self.case.h("transcript") != 0 {
            let mut h: u64 = 0xcbf29ce484222325;
            let _q = Quiet::new();
            let mut c: Vec<(u64, u32, u64, u64)> = self.table.iter().map(|e| (e.uid(), e.id(), e.hash(), e.payload())).collect();
            c.sort_unstable();
            h = (h ^ self.table.len() as u64).wrapping_mul(0x100000001b3);
            for (a, b, x, y) in c {
                for v in [a, b as u64, x, y] {
                    h = (h ^ v).wrapping_mul(0x100000001b3);
                }
            }
            self.out.transcript.push(h);
        }
        let after = Self::dump_of(&self.table);
        let clear_like = matches!(op.code, ops::CLEAR | ops::DRAIN | ops::CLONE_SWAP) || (op.code == ops::ITER && op.a[0] % 3 == 2);
        let tl = dump::transition_labels(&before, &after, clear_like);
        self.labels |= tl;
        if self.case.h("trace") != 0 {
            let mut d = [0u64; world::NCLASS];
            for i in 0..world::NCLASS {
                d[i] = counts1[i] - counts0[i];
            }
            self.out.per_step.push((tl, d));
        }
        Ok(())
    }

    /// C04 on the HashTable API: the k-th invocation of a callback class panics during this step.
    pub fn faulted_step(&mut self, step: usize, op: &Op) -> Result<(), Violation> {
        let class = Class::from_usize(self.case.h("fault_class") as usize).unwrap_or(Class::Hash);
        let k = self.case.h("fault_k");
        let snap = |t: &Table<E>| -> Vec<(u64, Option<u64>)> {
            let _q = Quiet::new();
            let mut v: Vec<(u64, Option<u64>)> = t.iter().map(|e| (e.uid(), e.serial())).collect();
            v.sort_unstable();
            v
        };
        let pre = snap(&self.table);
        let pre_dump = Self::dump_of(&self.table);
        let serials_before = world::n_serials();
        let stats_before = alloc::stats();
        alloc::begin_op();
        world::clear_panic_messages();
        if k > 0 {
            world::arm_fault(class, k);
        }
        let r = catch_unwind(AssertUnwindSafe(|| self.exec(op)));
        let fired = world::disarm_fault();
        self.track_pristine(op);
        let relabel = |v: Violation| Violation { property: "C04", kind: format!("after-panic:{}", v.kind), ..v };
        match r {
            Ok(Ok(())) => {
                return self.check_state().map_err(|b| {
                    let v = self.to_violation(step, b);
                    if fired { relabel(v) } else { v }
                });
            }
            Ok(Err(b)) => {
                let v = self.to_violation(step, b);
                return Err(if fired { relabel(v) } else { v });
            }
            Err(payload) => {
                let injected = payload.downcast_ref::<Injected>().is_some();
                drop(payload);
                if !injected {
                    let msg = world::last_panic_message().unwrap_or_else(|| "<no message>".into());
                    return Err(Violation { property: if fired { "C04" } else { self.panic_prop }, kind: "unexpected-panic".into(), step, detail: format!("HashTable operation panicked with a foreign payload (fault fired: {fired}): {msg}") });
                }
            }
        }
        self.out.count("faults_fired", 1);
        self.labels |= dump::L_FAULT_UNWOUND;
        self.pristine = false;
        let st = alloc::stats();
        let grew = st.n_alloc > stats_before.n_alloc;
        if grew {
            self.labels |= dump::L_FAULT_GROWTH;
        }
        if class == Class::Hash && !grew && pre_dump.n_deleted() > 0 && pre_dump.growth_left == 0 {
            self.labels |= dump::L_FAULT_REHASH;
        }
        if class != Class::Hash {
            self.labels |= dump::L_FAULT_OTHER;
        }
        let mk = |kind: &str, detail: String| Violation { property: "C04", kind: kind.to_string(), step, detail };
        if let Some(v) = world::take_violation() {
            return Err(relabel(v));
        }
        let d = Self::dump_of(&self.table);
        if let Err(b) = d.validate(true) {
            return Err(mk(&format!("after-panic:{}", b.1), format!("HashTable, class {:?} k {k}: {}", class, b.2)));
        }
        let now = snap(&self.table);
        if now.len() != self.table.len() {
            return Err(mk("after-panic:len-vs-iter", format!("len() {} but iter() yields {}", self.table.len(), now.len())));
        }
        {
            let _q = Quiet::new();
            for e in self.table.iter() {
                e.check("post-panic element");
                if self.table.find(e.hash(), |x| x.uid() == e.uid()).is_none() {
                    return Err(mk("after-panic:yielded-element-not-found", format!("iter() yields uid {} that find() with its hash does not return", e.uid())));
                }
            }
        }
        for (uid, ser) in &now {
            let known = pre.iter().any(|p| p.0 == *uid) || ser.map_or(true, |x| x >= serials_before) || !E::TRACKED;
            if !known {
                return Err(mk("after-panic:foreign-element", format!("uid {uid} is neither pre-existing nor handed in by this operation")));
            }
        }
        if E::TRACKED && !class.is_drop() {
            for (uid, ser) in &pre {
                if let Some(ser) = ser {
                    if !now.iter().any(|n| n.1 == Some(*ser)) && world::elem_state(*ser) == Some(world::ElemState::Live) {
                        return Err(mk("after-panic:element-lost-not-dropped", format!("element uid {uid} serial {ser} left the table but was never dropped")));
                    }
                }
            }
        }
        let single_growth = matches!(op.code, ops::INSERT_UNIQUE | ops::ENTRY | ops::RESERVE | ops::TRY_RESERVE | ops::SHRINK_TO | ops::SHRINK_TO_FIT | ops::INSERT_DUP);
        if class == Class::Hash && grew && single_growth && now != pre {
            return Err(mk("hash-panic-during-growth-changed-contents", format!("{} elements before, {} after a hasher panic while growing into a new allocation", pre.len(), now.len())));
        }
        let exp = if d.is_singleton { 0 } else { 1 };
        if !class.is_drop() && st.n_live != exp {
            return Err(mk("after-panic:block-leaked", format!("ledger holds {} blocks, the table owns {exp}", st.n_live)));
        }
        if class.is_drop() {
            self.leak_ok = true;
        }
        self.resync();
        alloc::check_zones(false);
        if let Some(v) = world::take_violation() {
            return Err(relabel(v));
        }
        Ok(())
    }

    fn resync(&mut self) {
        let _q = Quiet::new();
        self.model = self
            .table
            .iter()
            .map(|e| TM { uid: e.uid(), id: e.id(), hash: e.hash(), payload: e.payload() })
            .collect();
    }

    pub fn finish(mut self, step: usize) -> (Outcome, Option<Violation>) {
        let labels = self.labels;
        let mut out = std::mem::take(&mut self.out);
        out.labels = labels;
        let table = std::mem::replace(&mut self.table, Table::new_in(CheckAlloc));
        let r = catch_unwind(AssertUnwindSafe(move || drop(table)));
        if let Err(p) = r {
            drop(p);
            let msg = world::last_panic_message().unwrap_or_default();
            return (out, Some(Violation { property: self.panic_prop, kind: "unexpected-panic".into(), step, detail: format!("dropping the table panicked: {msg}") }));
        }
        alloc::check_zones(true);
        if let Some(v) = world::take_violation() {
            return (out, Some(v));
        }
        let st = alloc::stats();
        if self.leak_ok {
            return (out, None);
        }
        if st.n_live != 0 {
            return (out, Some(Violation { property: "C03", kind: "block-leaked".into(), step, detail: format!("{} blocks still allocated after the table was dropped", st.n_live) }));
        }
        let live = world::with(|w| w.live_elems);
        if live != 0 {
            return (out, Some(Violation { property: "C03", kind: "element-leaked".into(), step, detail: format!("{live} tracked elements never dropped") }));
        }
        (out, None)
    }
}

pub fn run_case(case: &Case) -> Outcome {
    match case.h("elem") {
        0 => run_typed::<crate::telem::TElem>(case),
        _ => run_typed::<crate::telem::PElem>(case),
    }
}

pub fn run_typed<E: TElemT>(case: &Case) -> Outcome {
    world::install_panic_hook();
    world::reset();
    let mut it: TInterp<'_, E> = TInterp::new(case);
    // under inconsistent answers of the caller's hash / eq closures every violation is one of C05
    let chaos = case.h("chaos") != 0;
    let relabel = |v: Violation| if chaos && v.property != "C05" { Violation { property: "C05", kind: format!("chaos:{}", v.kind), ..v } } else { v };
    let mut violation = None;
    let mut steps = 0;
    for (i, op) in case.ops.iter().enumerate() {
        world::set_step(i);
        steps = i + 1;
        if let Err(v) = it.step(i, op) {
            violation = Some(v);
            break;
        }
    }
    if let Some(v) = violation {
        let labels = it.labels;
        let mut out = std::mem::take(&mut it.out);
        std::mem::forget(it);
        out.labels = labels;
        out.violation = Some(relabel(v));
        out.steps = steps;
        world::with(|w| w.quiet = 0);
        return out;
    }
    let (mut out, v) = it.finish(steps);
    out.violation = v.map(relabel);
    out.steps = steps;
    out
}
