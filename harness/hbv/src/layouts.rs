//! Element layout family (DESIGN 5.3): 14 plain `(size, align)` pairs plus 5 tracked ones.

use crate::world::{self, Class, MAGIC_DEAD, MAGIC_LIVE};
use std::hash::{Hash, Hasher};

#[derive(Clone, Copy)]
#[repr(align(1))]
pub struct A1;
#[derive(Clone, Copy)]
#[repr(align(2))]
pub struct A2;
#[derive(Clone, Copy)]
#[repr(align(8))]
pub struct A8;
#[derive(Clone, Copy)]
#[repr(align(16))]
pub struct A16;
#[derive(Clone, Copy)]
#[repr(align(32))]
pub struct A32;
#[derive(Clone, Copy)]
#[repr(align(64))]
pub struct A64;

pub trait LElem: Sized + Clone + Hash + Eq + std::fmt::Debug + 'static {
    const SIZE: usize;
    const ALIGN: usize;
    const TRACKED: bool;
    fn make(id: u64) -> Self;
    fn id(&self) -> u64;
    /// number of distinct ids this layout can represent
    fn id_space() -> u64;
    /// filler bytes are consistent with the id
    fn verify(&self) -> bool;
    fn serial(&self) -> Option<u64> {
        None
    }
    fn name() -> String {
        format!("{}({},{})", if Self::TRACKED { "tracked" } else { "plain" }, Self::SIZE, Self::ALIGN)
    }
}

fn filler(id: u64, i: usize) -> u8 {
    (id as u8) ^ (i as u8).wrapping_mul(31) ^ 0x5A
}

/// Plain element: `N` bytes with the alignment of `AL`, no drop glue.
#[derive(Clone, Copy)]
#[repr(C)]
pub struct PL<const N: usize, AL: Copy> {
    _a: [AL; 0],
    d: [u8; N],
}

impl<const N: usize, AL: Copy + 'static> LElem for PL<N, AL> {
    const SIZE: usize = std::mem::size_of::<Self>();
    const ALIGN: usize = std::mem::align_of::<Self>();
    const TRACKED: bool = false;
    fn make(id: u64) -> Self {
        let mut d = [0u8; N];
        let idb = id.to_le_bytes();
        for i in 0..N {
            d[i] = if i < 8 { idb[i] } else { filler(id, i) };
        }
        PL { _a: [], d }
    }
    fn id(&self) -> u64 {
        let mut b = [0u8; 8];
        for i in 0..N.min(8) {
            b[i] = self.d[i];
        }
        u64::from_le_bytes(b)
    }
    fn id_space() -> u64 {
        match N {
            0 => 1,
            1 => 256,
            2 => 65536,
            _ => 1 << 24,
        }
    }
    fn verify(&self) -> bool {
        let id = self.id();
        (8..N).all(|i| self.d[i] == filler(id, i))
    }
}

/// `Debug` is part of the safe API (`{:?}` of a collection, iterator or drain): formatting an element
/// checks that the reference names a live, intact element.
impl<const N: usize, AL: Copy + 'static> std::fmt::Debug for PL<N, AL> {
    fn fmt(&self, f: &mut std::fmt::Formatter<'_>) -> std::fmt::Result {
        if !self.verify() {
            world::violation("C02", "debug-of-garbage", format!("Debug was handed a reference to a slot that fails the element self-check (id {})", self.id()));
        }
        write!(f, "P{}", self.id())
    }
}
impl<const N: usize, AL: Copy + 'static> Hash for PL<N, AL> {
    fn hash<H: Hasher>(&self, h: &mut H) {
        h.write_u64(self.id());
    }
}
impl<const N: usize, AL: Copy + 'static> PartialEq for PL<N, AL> {
    fn eq(&self, o: &Self) -> bool {
        world::callback(Class::Eq);
        self.id() == o.id()
    }
}
impl<const N: usize, AL: Copy + 'static> Eq for PL<N, AL> {}

/// Tracked element (N >= 16): id in bytes 0..4, magic word in 4..8 (low half of the registry
/// magic), serial in 8..16, filler afterwards; has drop glue.
#[repr(C)]
pub struct TL<const N: usize, AL: Copy> {
    _a: [AL; 0],
    d: [u8; N],
}

const M32_LIVE: u32 = MAGIC_LIVE as u32;
const M32_DEAD: u32 = MAGIC_DEAD as u32;

impl<const N: usize, AL: Copy> TL<N, AL> {
    fn magic32(&self) -> u32 {
        u32::from_le_bytes([self.d[4], self.d[5], self.d[6], self.d[7]])
    }
    fn serial_raw(&self) -> u64 {
        let mut b = [0u8; 8];
        b.copy_from_slice(&self.d[8..16]);
        u64::from_le_bytes(b)
    }
}

impl<const N: usize, AL: Copy + 'static> LElem for TL<N, AL> {
    const SIZE: usize = std::mem::size_of::<Self>();
    const ALIGN: usize = std::mem::align_of::<Self>();
    const TRACKED: bool = true;
    fn make(id: u64) -> Self {
        assert!(N >= 16);
        let mut d = [0u8; N];
        d[0..4].copy_from_slice(&(id as u32).to_le_bytes());
        d[4..8].copy_from_slice(&M32_LIVE.to_le_bytes());
        d[8..16].copy_from_slice(&world::new_serial().to_le_bytes());
        for i in 16..N {
            d[i] = filler(id & 0xffff_ffff, i);
        }
        TL { _a: [], d }
    }
    fn id(&self) -> u64 {
        u32::from_le_bytes([self.d[0], self.d[1], self.d[2], self.d[3]]) as u64
    }
    fn id_space() -> u64 {
        1 << 24
    }
    fn verify(&self) -> bool {
        let id = self.id();
        self.magic32() == M32_LIVE
            && (16..N).all(|i| self.d[i] == filler(id, i))
            && world::elem_state(self.serial_raw()) == Some(world::ElemState::Live)
    }
    fn serial(&self) -> Option<u64> {
        Some(self.serial_raw())
    }
}

impl<const N: usize, AL: Copy + 'static> std::fmt::Debug for TL<N, AL> {
    fn fmt(&self, f: &mut std::fmt::Formatter<'_>) -> std::fmt::Result {
        if !self.verify() {
            world::violation("C02", "debug-of-dead-element", format!("Debug was handed a reference to a slot that does not hold a live element (id {}, magic {:#x})", self.id(), self.magic32()));
        }
        write!(f, "T{}", self.id())
    }
}
impl<const N: usize, AL: Copy> Drop for TL<N, AL> {
    fn drop(&mut self) {
        let m = self.magic32();
        let magic = if m == M32_LIVE {
            MAGIC_LIVE
        } else if m == M32_DEAD {
            MAGIC_DEAD
        } else {
            m as u64
        };
        world::drop_event(self.serial_raw(), magic);
        let dead = M32_DEAD.to_le_bytes();
        for i in 0..4 {
            unsafe { std::ptr::write_volatile(&mut self.d[4 + i], dead[i]) };
        }
        world::callback(Class::DropK);
    }
}

impl<const N: usize, AL: Copy + 'static> Clone for TL<N, AL> {
    fn clone(&self) -> Self {
        world::callback(Class::CloneK);
        Self::make(self.id())
    }
}
impl<const N: usize, AL: Copy + 'static> Hash for TL<N, AL> {
    fn hash<H: Hasher>(&self, h: &mut H) {
        h.write_u64(self.id());
    }
}
impl<const N: usize, AL: Copy + 'static> PartialEq for TL<N, AL> {
    fn eq(&self, o: &Self) -> bool {
        world::callback(Class::Eq);
        self.id() == o.id()
    }
}
impl<const N: usize, AL: Copy + 'static> Eq for TL<N, AL> {}

/// Zero-sized element WITH drop glue: it has no identity, so constructions and drops are counted
/// in the World (`zst_made` / `zst_dropped`); more drops than constructions is a double drop,
/// fewer at the end of a case is a leak.
pub struct ZT;

impl LElem for ZT {
    const SIZE: usize = 0;
    const ALIGN: usize = 1;
    const TRACKED: bool = true;
    fn make(_id: u64) -> Self {
        world::with(|w| w.zst_made += 1);
        ZT
    }
    fn id(&self) -> u64 {
        0
    }
    fn id_space() -> u64 {
        1
    }
    fn verify(&self) -> bool {
        true
    }
    fn name() -> String {
        "tracked(0,1)".to_string()
    }
}
impl std::fmt::Debug for ZT {
    fn fmt(&self, f: &mut std::fmt::Formatter<'_>) -> std::fmt::Result {
        write!(f, "Z")
    }
}
impl Drop for ZT {
    fn drop(&mut self) {
        let over = world::with(|w| {
            w.zst_dropped += 1;
            w.zst_dropped > w.zst_made
        });
        if over {
            world::violation("C03", "double-drop", "a zero-sized element was dropped more often than elements were constructed".to_string());
        }
        world::callback(Class::DropK);
    }
}
impl Clone for ZT {
    fn clone(&self) -> Self {
        world::callback(Class::CloneK);
        Self::make(0)
    }
}
impl Hash for ZT {
    fn hash<H: Hasher>(&self, h: &mut H) {
        h.write_u64(0);
    }
}
impl PartialEq for ZT {
    fn eq(&self, _o: &Self) -> bool {
        world::callback(Class::Eq);
        true
    }
}
impl Eq for ZT {}

pub const N_LAYOUTS: u64 = 20;

pub const LAYOUT_NAMES: [&str; 20] = [
    "plain(0,1)", "plain(0,64)", "plain(1,1)", "plain(2,1)", "plain(2,2)", "plain(3,1)", "plain(8,1)", "plain(8,8)",
    "plain(16,16)", "plain(24,1)", "plain(24,8)", "plain(32,32)", "plain(64,64)", "plain(200,8)", "tracked(16,16)",
    "tracked(24,8)", "tracked(32,32)", "tracked(64,64)", "tracked(200,8)", "tracked(0,1)",
];

/// `(size, align)` of layout `i`.
pub const LAYOUT_DIMS: [(usize, usize); 20] = [
    (0, 1), (0, 64), (1, 1), (2, 1), (2, 2), (3, 1), (8, 1), (8, 8), (16, 16), (24, 1), (24, 8), (32, 32), (64, 64),
    (200, 8), (16, 16), (24, 8), (32, 32), (64, 64), (200, 8), (0, 1),
];

/// Dispatch a generic function over the layout family.
#[macro_export]
macro_rules! with_layout {
    ($id:expr, $f:ident $(, $arg:expr)*) => {{
        use $crate::layouts::*;
        match $id % N_LAYOUTS {
            0 => $f::<PL<0, A1>>($($arg),*),
            1 => $f::<PL<0, A64>>($($arg),*),
            2 => $f::<PL<1, A1>>($($arg),*),
            3 => $f::<PL<2, A1>>($($arg),*),
            4 => $f::<PL<2, A2>>($($arg),*),
            5 => $f::<PL<3, A1>>($($arg),*),
            6 => $f::<PL<8, A1>>($($arg),*),
            7 => $f::<PL<8, A8>>($($arg),*),
            8 => $f::<PL<16, A16>>($($arg),*),
            9 => $f::<PL<24, A1>>($($arg),*),
            10 => $f::<PL<24, A8>>($($arg),*),
            11 => $f::<PL<32, A32>>($($arg),*),
            12 => $f::<PL<64, A64>>($($arg),*),
            13 => $f::<PL<200, A8>>($($arg),*),
            14 => $f::<TL<16, A16>>($($arg),*),
            15 => $f::<TL<24, A8>>($($arg),*),
            16 => $f::<TL<32, A32>>($($arg),*),
            17 => $f::<TL<64, A64>>($($arg),*),
            18 => $f::<TL<200, A8>>($($arg),*),
            _ => $f::<ZT>($($arg),*),
        }
    }};
}
