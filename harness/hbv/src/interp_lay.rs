// Layout interpreter: programs over HashTable / HashSet / HashMap for every element layout, with
// object life-cycle operations (advance j steps then drop or mem::forget), capacity contract
// checks (C08) and try_reserve under refusing allocators (C12). Included once per back-end.

use crate::alloc::{self, CheckAlloc};
use crate::case::{frac_index, frac_to, Case, Op};
use crate::dump::{self, Bad, Dump};
use crate::layouts::LElem;
use crate::outcome::Outcome;
use crate::plan::{splitmix64, Plan, PlanBuildHasher};
use crate::specs::lay as ops;
use crate::world::{self, Class, Quiet, Violation};
use std::panic::{catch_unwind, AssertUnwindSafe};

/// Validate a reference handed out by a collection.
pub fn check_ref<T>(r: &T, d: &Dump, what: &str) -> Result<(), Bad> {
    let addr = r as *const T as usize;
    let al = std::mem::align_of::<T>();
    let sz = std::mem::size_of::<T>();
    if addr % al != 0 {
        bad!("C02", "misaligned-reference", "{what}: reference {addr:#x} to a type with alignment {al}");
    }
    if sz > 0 {
        if d.is_singleton {
            bad!("C02", "reference-into-singleton", "{what}: reference {addr:#x} handed out by an unallocated table");
        }
        let (start, _, _) = d.predicted_block();
        if addr < start || addr + sz > d.ctrl_addr {
            bad!("C02", "reference-outside-data-part", "{what}: reference {addr:#x}+{sz} outside the data part [{start:#x}, {:#x}) of the table's block", d.ctrl_addr);
        }
    }
    Ok(())
}

fn check_elem<E: LElem>(e: &E, d: &Dump, what: &str) -> Result<(), Bad> {
    check_ref(e, d, what)?;
    if !e.verify() {
        bad!("C02", "reference-to-garbage", "{what}: element at {:#x} (id {}) fails its self-check: not a live element", e as *const E as usize, e.id());
    }
    Ok(())
}

fn vid(id: u64, space: u64) -> u64 {
    (id.wrapping_mul(7).wrapping_add(1)) % space.max(1)
}

/// What a life-cycle operation did to the collection.
pub enum After {
    /// contents unchanged
    Same,
    /// the collection may hold any sub-multiset of what it held
    Subset,
    /// the collection was consumed; a fresh empty one was installed
    Consumed,
}

pub trait Coll<E: LElem>: Sized {
    const KIND: &'static str;
    const DUPLICATES: bool;
    const N_LIFE: u64;
    fn with_capacity(cap: usize, plan: Plan) -> Self;
    fn global_ctor_probe() -> Result<(), Bad>;
    fn dump(&self) -> Dump;
    fn len(&self) -> usize;
    fn capacity(&self) -> usize;
    fn allocation_size(&self) -> usize;
    /// true if a new element was stored
    fn insert(&mut self, id: u64, plan: &Plan) -> Result<bool, Bad>;
    fn remove(&mut self, id: u64, plan: &Plan) -> Result<bool, Bad>;
    fn contains(&self, id: u64, plan: &Plan) -> Result<bool, Bad>;
    fn ids(&self) -> Result<Vec<u64>, Bad>;
    fn reserve(&mut self, n: usize);
    fn try_reserve(&mut self, n: usize) -> Result<(), hb::TryReserveError>;
    fn shrink_to(&mut self, m: usize);
    fn shrink_to_fit(&mut self);
    fn clear(&mut self);
    fn clone_c(&self) -> Self;
    fn clone_from_c(&mut self, o: &Self);
    fn retain(&mut self, salt: u64, pct: u64);
    /// `extract_if` consumed completely; the predicate's answer to its c-th call is bit `c % 64` of
    /// `pattern` (so it also varies between elements that cannot be told apart, e.g. zero-sized
    /// ones). Returns (answers given, in call order, with the visited id; ids yielded).
    fn extract_seq(&mut self, pattern: u64) -> Result<(Vec<(u64, bool)>, Vec<u64>), Bad>;
    /// elements yielded (by repeated next()) by iter(), by into_iter() of a clone and by drain() of a
    /// clone: each must be len()
    fn counts(&self) -> [usize; 3];
    /// `get_many_mut` with one request for `id` and, if given, a second one for `absent` (an id that
    /// is not stored): Some((first is Some, second is Some)), or None if the collection has no such API
    fn get_many(&mut self, _id: u64, _absent: Option<u64>, _plan: &Plan) -> Result<Option<(bool, bool)>, Bad> {
        Ok(None)
    }
    /// life-cycle op: create object `kind`, advance `j`, drop or forget
    fn life(&mut self, kind: u64, j: usize, forget: bool, key: u64, plan: &Plan) -> Result<After, Bad>;
}

fn keep(id: u64, salt: u64, pct: u64) -> bool {
    splitmix64(id ^ salt.wrapping_mul(0x9E37_79B9)) % 100 < pct
}

/// `{:?}` of a live iterator / drain / entry: the element `Debug` impls check what they are handed.
fn dbg_touch<T: std::fmt::Debug>(t: &T) {
    let _q = Quiet::new();
    let _ = format!("{:?}", t);
}

fn end<T>(x: T, forget: bool) {
    if forget {
        std::mem::forget(x);
    } else {
        drop(x);
    }
}

// ---------------------------------------------------------------------------------------------
// HashTable

pub struct TableC<E: LElem>(pub hb::HashTable<E, CheckAlloc>, pub Plan);

fn th<E: LElem>(plan: Plan) -> impl Fn(&E) -> u64 {
    move |e: &E| {
        world::callback(Class::Hash);
        plan.hash(e.id())
    }
}

impl<E: LElem> Coll<E> for TableC<E> {
    const KIND: &'static str = "table";
    const DUPLICATES: bool = true;
    const N_LIFE: u64 = 8;
    fn with_capacity(cap: usize, plan: Plan) -> Self {
        TableC(hb::HashTable::with_capacity_in(cap, CheckAlloc), plan)
    }
    fn global_ctor_probe() -> Result<(), Bad> {
        let a0 = alloc::global_allocs_this_thread();
        let t1: hb::HashTable<E> = hb::HashTable::new();
        let t2: hb::HashTable<E> = hb::HashTable::with_capacity(0);
        let t3: hb::HashTable<E> = Default::default();
        let a1 = alloc::global_allocs_this_thread();
        let sizes = (t1.allocation_size(), t2.allocation_size(), t3.allocation_size());
        let caps = (t1.capacity(), t2.capacity(), t3.capacity());
        drop((t1, t2, t3));
        if a1 != a0 || sizes != (0, 0, 0) || caps != (0, 0, 0) {
            bad!("C08", "empty-constructor-allocates", "HashTable new/with_capacity(0)/default: {} global allocations, allocation_size {:?}, capacity {:?}", a1 - a0, sizes, caps);
        }
        Ok(())
    }
    fn dump(&self) -> Dump {
        conv_dump(self.0.verif_dump())
    }
    fn len(&self) -> usize {
        self.0.len()
    }
    fn capacity(&self) -> usize {
        self.0.capacity()
    }
    fn allocation_size(&self) -> usize {
        self.0.allocation_size()
    }
    fn insert(&mut self, id: u64, plan: &Plan) -> Result<bool, Bad> {
        let o = self.0.insert_unique(plan.hash(id), E::make(id), th::<E>(*plan));
        let got = o.get().id();
        if got != id {
            bad!("C02", "inserted-element-differs", "insert_unique({id}) entry holds id {got}");
        }
        Ok(true)
    }
    fn remove(&mut self, id: u64, plan: &Plan) -> Result<bool, Bad> {
        match self.0.find_entry(plan.hash(id), |e| e.id() == id) {
            Ok(o) => {
                let (e, _) = o.remove();
                if e.id() != id || !e.verify() {
                    bad!("C02", "removed-element-garbage", "removed element id {} (wanted {id}) verify={}", e.id(), e.verify());
                }
                Ok(true)
            }
            Err(_) => Ok(false),
        }
    }
    fn contains(&self, id: u64, plan: &Plan) -> Result<bool, Bad> {
        let d = self.dump();
        match self.0.find(plan.hash(id), |e| e.id() == id) {
            Some(e) => {
                check_elem(e, &d, "HashTable::find")?;
                Ok(true)
            }
            None => Ok(false),
        }
    }
    fn ids(&self) -> Result<Vec<u64>, Bad> {
        let d = self.dump();
        let mut v = Vec::new();
        for e in self.0.iter() {
            check_elem(e, &d, "HashTable::iter item")?;
            v.push(e.id());
        }
        Ok(v)
    }
    fn reserve(&mut self, n: usize) {
        let p = self.1;
        self.0.reserve(n, th::<E>(p));
    }
    fn try_reserve(&mut self, n: usize) -> Result<(), hb::TryReserveError> {
        let p = self.1;
        self.0.try_reserve(n, th::<E>(p))
    }
    fn shrink_to(&mut self, m: usize) {
        let p = self.1;
        self.0.shrink_to(m, th::<E>(p));
    }
    fn shrink_to_fit(&mut self) {
        let p = self.1;
        self.0.shrink_to_fit(th::<E>(p));
    }
    fn clear(&mut self) {
        self.0.clear();
    }
    fn clone_c(&self) -> Self {
        TableC(self.0.clone(), self.1)
    }
    fn clone_from_c(&mut self, o: &Self) {
        self.0.clone_from(&o.0);
    }
    fn retain(&mut self, salt: u64, pct: u64) {
        self.0.retain(|e| keep(e.id(), salt, pct));
    }
    fn extract_seq(&mut self, pattern: u64) -> Result<(Vec<(u64, bool)>, Vec<u64>), Bad> {
        let mut calls: Vec<(u64, bool)> = Vec::new();
        let mut yielded = Vec::new();
        for e in self.0.extract_if(|e| {
            let ans = (pattern >> (calls.len() % 64)) & 1 == 1;
            calls.push((e.id(), ans));
            ans
        }) {
            if !e.verify() {
                bad!("C02", "extracted-element-garbage", "HashTable::extract_if yielded garbage");
            }
            yielded.push(e.id());
        }
        Ok((calls, yielded))
    }
    fn counts(&self) -> [usize; 3] {
        let mut a = 0;
        let mut it = self.0.iter();
        while it.next().is_some() {
            a += 1;
        }
        let mut b = 0;
        let mut it = self.0.clone().into_iter();
        while it.next().is_some() {
            b += 1;
        }
        let mut c = 0;
        let mut t = self.0.clone();
        {
            let mut it = t.drain();
            while it.next().is_some() {
                c += 1;
            }
        }
        [a, b, c]
    }
    fn get_many(&mut self, id: u64, absent: Option<u64>, plan: &Plan) -> Result<Option<(bool, bool)>, Bad> {
        let d = self.dump();
        Ok(Some(match absent {
            None => {
                let [a] = self.0.get_many_mut([plan.hash(id)], |_, e| e.id() == id);
                if let Some(e) = &a {
                    check_elem(&**e, &d, "HashTable::get_many_mut item")?;
                }
                (a.is_some(), false)
            }
            Some(x) => {
                let ids = [id, x];
                let [a, b] = self.0.get_many_mut([plan.hash(id), plan.hash(x)], |i, e| e.id() == ids[i]);
                if let Some(e) = &a {
                    check_elem(&**e, &d, "HashTable::get_many_mut item")?;
                }
                (a.is_some(), b.is_some())
            }
        }))
    }
    fn life(&mut self, kind: u64, j: usize, forget: bool, key: u64, plan: &Plan) -> Result<After, Bad> {
        let d = self.dump();
        let p = *plan;
        match kind % Self::N_LIFE {
            0 => {
                let mut it = self.0.iter();
                for _ in 0..j {
                    if let Some(e) = it.next() {
                        check_elem(e, &d, "HashTable::iter item")?;
                    }
                }
                dbg_touch(&it);
                end(it, forget);
                Ok(After::Same)
            }
            1 => {
                let mut it = self.0.iter_mut();
                for _ in 0..j {
                    if let Some(e) = it.next() {
                        check_elem(e, &d, "HashTable::iter_mut item")?;
                    }
                }
                dbg_touch(&it);
                end(it, forget);
                Ok(After::Same)
            }
            2 => {
                let mut it = self.0.drain();
                for _ in 0..j {
                    if let Some(e) = it.next() {
                        if !e.verify() {
                            bad!("C02", "drained-element-garbage", "HashTable::drain yielded an element that fails its self-check");
                        }
                    }
                }
                dbg_touch(&it);
                end(it, forget);
                Ok(After::Subset)
            }
            3 => {
                let mut it = self.0.extract_if(|e| e.id() % 2 == 0);
                for _ in 0..j {
                    if let Some(e) = it.next() {
                        if !e.verify() {
                            bad!("C02", "extracted-element-garbage", "HashTable::extract_if yielded garbage");
                        }
                    }
                }
                end(it, forget);
                Ok(After::Subset)
            }
            4 => {
                let old = std::mem::replace(&mut self.0, hb::HashTable::new_in(CheckAlloc));
                let mut it = old.into_iter();
                for _ in 0..j {
                    if let Some(e) = it.next() {
                        if !e.verify() {
                            bad!("C02", "into_iter-element-garbage", "HashTable::into_iter yielded garbage");
                        }
                    }
                }
                dbg_touch(&it);
                end(it, forget);
                Ok(After::Consumed)
            }
            5 => {
                match self.0.find_entry(p.hash(key), |e| e.id() == key) {
                    Ok(o) => {
                        check_elem(o.get(), &d, "HashTable OccupiedEntry::get")?;
                        end(o, forget);
                    }
                    Err(a) => end(a, forget),
                }
                Ok(After::Same)
            }
            6 => {
                // entry() may reserve; the entry object is then dropped or leaked unused
                let e = self.0.entry(p.hash(key), |e| e.id() == key, th::<E>(p));
                end(e, forget);
                Ok(After::Same)
            }
            _ => {
                let mut it = self.0.iter_hash(p.hash(key));
                for _ in 0..j {
                    if let Some(e) = it.next() {
                        check_elem(e, &d, "HashTable::iter_hash item")?;
                    }
                }
                dbg_touch(&it);
                end(it, forget);
                Ok(After::Same)
            }
        }
    }
}

// ---------------------------------------------------------------------------------------------
// HashSet

pub struct SetC<E: LElem>(pub hb::HashSet<E, PlanBuildHasher, CheckAlloc>);

impl<E: LElem> Coll<E> for SetC<E> {
    const KIND: &'static str = "set";
    const DUPLICATES: bool = false;
    const N_LIFE: u64 = 6;
    fn with_capacity(cap: usize, plan: Plan) -> Self {
        SetC(hb::HashSet::with_capacity_and_hasher_in(cap, PlanBuildHasher::new(plan), CheckAlloc))
    }
    fn global_ctor_probe() -> Result<(), Bad> {
        let a0 = alloc::global_allocs_this_thread();
        let t1: hb::HashSet<E, PlanBuildHasher> = hb::HashSet::with_hasher(PlanBuildHasher::new(Plan::mixed(0)));
        let t2: hb::HashSet<E, PlanBuildHasher> = hb::HashSet::with_capacity_and_hasher(0, PlanBuildHasher::new(Plan::mixed(0)));
        let t3: hb::HashSet<E, PlanBuildHasher> = Default::default();
        let t4: hb::HashSet<E> = hb::HashSet::new();
        let a1 = alloc::global_allocs_this_thread();
        let sizes = (t1.allocation_size(), t2.allocation_size(), t3.allocation_size(), t4.allocation_size());
        drop((t1, t2, t3, t4));
        if a1 != a0 || sizes != (0, 0, 0, 0) {
            bad!("C08", "empty-constructor-allocates", "HashSet new/with_capacity(0)/default: {} global allocations, allocation_size {:?}", a1 - a0, sizes);
        }
        Ok(())
    }
    fn dump(&self) -> Dump {
        conv_dump(self.0.verif_dump())
    }
    fn len(&self) -> usize {
        self.0.len()
    }
    fn capacity(&self) -> usize {
        self.0.capacity()
    }
    fn allocation_size(&self) -> usize {
        self.0.allocation_size()
    }
    fn insert(&mut self, id: u64, _plan: &Plan) -> Result<bool, Bad> {
        Ok(self.0.insert(E::make(id)))
    }
    fn remove(&mut self, id: u64, _plan: &Plan) -> Result<bool, Bad> {
        match self.0.take(&E::make(id)) {
            Some(e) => {
                if e.id() != id || !e.verify() {
                    bad!("C02", "removed-element-garbage", "HashSet::take({id}) returned id {} verify={}", e.id(), e.verify());
                }
                Ok(true)
            }
            None => Ok(false),
        }
    }
    fn contains(&self, id: u64, _plan: &Plan) -> Result<bool, Bad> {
        let d = self.dump();
        match self.0.get(&E::make(id)) {
            Some(e) => {
                check_elem(e, &d, "HashSet::get")?;
                Ok(true)
            }
            None => Ok(false),
        }
    }
    fn ids(&self) -> Result<Vec<u64>, Bad> {
        let d = self.dump();
        let mut v = Vec::new();
        for e in self.0.iter() {
            check_elem(e, &d, "HashSet::iter item")?;
            v.push(e.id());
        }
        Ok(v)
    }
    fn reserve(&mut self, n: usize) {
        self.0.reserve(n);
    }
    fn try_reserve(&mut self, n: usize) -> Result<(), hb::TryReserveError> {
        self.0.try_reserve(n)
    }
    fn shrink_to(&mut self, m: usize) {
        self.0.shrink_to(m);
    }
    fn shrink_to_fit(&mut self) {
        self.0.shrink_to_fit();
    }
    fn clear(&mut self) {
        self.0.clear();
    }
    fn clone_c(&self) -> Self {
        SetC(self.0.clone())
    }
    fn clone_from_c(&mut self, o: &Self) {
        self.0.clone_from(&o.0);
    }
    fn retain(&mut self, salt: u64, pct: u64) {
        self.0.retain(|e| keep(e.id(), salt, pct));
    }
    fn extract_seq(&mut self, pattern: u64) -> Result<(Vec<(u64, bool)>, Vec<u64>), Bad> {
        let mut calls: Vec<(u64, bool)> = Vec::new();
        let mut yielded = Vec::new();
        for e in self.0.extract_if(|e| {
            let ans = (pattern >> (calls.len() % 64)) & 1 == 1;
            calls.push((e.id(), ans));
            ans
        }) {
            if !e.verify() {
                bad!("C02", "extracted-element-garbage", "HashSet::extract_if yielded garbage");
            }
            yielded.push(e.id());
        }
        Ok((calls, yielded))
    }
    fn counts(&self) -> [usize; 3] {
        let mut a = 0;
        let mut it = self.0.iter();
        while it.next().is_some() {
            a += 1;
        }
        let mut b = 0;
        let mut it = self.0.clone().into_iter();
        while it.next().is_some() {
            b += 1;
        }
        let mut c = 0;
        let mut t = self.0.clone();
        {
            let mut it = t.drain();
            while it.next().is_some() {
                c += 1;
            }
        }
        [a, b, c]
    }
    fn life(&mut self, kind: u64, j: usize, forget: bool, key: u64, _plan: &Plan) -> Result<After, Bad> {
        let d = self.dump();
        match kind % Self::N_LIFE {
            0 => {
                let mut it = self.0.iter();
                for _ in 0..j {
                    if let Some(e) = it.next() {
                        check_elem(e, &d, "HashSet::iter item")?;
                    }
                }
                dbg_touch(&it);
                end(it, forget);
                Ok(After::Same)
            }
            1 => {
                let mut it = self.0.drain();
                for _ in 0..j {
                    if let Some(e) = it.next() {
                        if !e.verify() {
                            bad!("C02", "drained-element-garbage", "HashSet::drain yielded garbage");
                        }
                    }
                }
                dbg_touch(&it);
                end(it, forget);
                Ok(After::Subset)
            }
            2 => {
                let mut it = self.0.extract_if(|e| e.id() % 2 == 0);
                for _ in 0..j {
                    if let Some(e) = it.next() {
                        if !e.verify() {
                            bad!("C02", "extracted-element-garbage", "HashSet::extract_if yielded garbage");
                        }
                    }
                }
                end(it, forget);
                Ok(After::Subset)
            }
            3 => {
                let plan = self.0.hasher().plan;
                let old = std::mem::replace(&mut self.0, hb::HashSet::with_hasher_in(PlanBuildHasher::new(plan), CheckAlloc));
                let mut it = old.into_iter();
                for _ in 0..j {
                    if let Some(e) = it.next() {
                        if !e.verify() {
                            bad!("C02", "into_iter-element-garbage", "HashSet::into_iter yielded garbage");
                        }
                    }
                }
                dbg_touch(&it);
                end(it, forget);
                Ok(After::Consumed)
            }
            4 => {
                let e = self.0.entry(E::make(key));
                end(e, forget);
                Ok(After::Same)
            }
            _ => {
                let other = self.0.clone();
                let mut it = self.0.symmetric_difference(&other);
                for _ in 0..j {
                    let _ = it.next();
                }
                dbg_touch(&it);
                end(it, forget);
                let mut it = self.0.union(&other);
                for _ in 0..j {
                    if let Some(e) = it.next() {
                        if !e.verify() {
                            bad!("C02", "union-element-garbage", "HashSet::union yielded garbage");
                        }
                    }
                }
                dbg_touch(&it);
                end(it, forget);
                Ok(After::Same)
            }
        }
    }
}

// ---------------------------------------------------------------------------------------------
// HashMap<E, E>

pub struct MapC<E: LElem>(pub hb::HashMap<E, E, PlanBuildHasher, CheckAlloc>);

impl<E: LElem> MapC<E> {
    fn check_pair(k: &E, v: &E, d: &Dump, what: &str) -> Result<(), Bad> {
        check_elem(k, d, what)?;
        check_elem(v, d, what)?;
        if v.id() != vid(k.id(), E::id_space()) {
            bad!("C02", "pair-mismatch", "{what}: key {} paired with value {} (expected {})", k.id(), v.id(), vid(k.id(), E::id_space()));
        }
        Ok(())
    }
}

impl<E: LElem> Coll<E> for MapC<E> {
    const KIND: &'static str = "map";
    const DUPLICATES: bool = false;
    const N_LIFE: u64 = 14;
    fn with_capacity(cap: usize, plan: Plan) -> Self {
        MapC(hb::HashMap::with_capacity_and_hasher_in(cap, PlanBuildHasher::new(plan), CheckAlloc))
    }
    fn global_ctor_probe() -> Result<(), Bad> {
        let a0 = alloc::global_allocs_this_thread();
        let t1: hb::HashMap<E, E, PlanBuildHasher> = hb::HashMap::with_hasher(PlanBuildHasher::new(Plan::mixed(0)));
        let t2: hb::HashMap<E, E, PlanBuildHasher> = hb::HashMap::with_capacity_and_hasher(0, PlanBuildHasher::new(Plan::mixed(0)));
        let t3: hb::HashMap<E, E, PlanBuildHasher> = Default::default();
        let t4: hb::HashMap<E, E> = hb::HashMap::new();
        let t5: hb::HashMap<E, E> = hb::HashMap::with_capacity(0);
        let a1 = alloc::global_allocs_this_thread();
        let sizes = (t1.allocation_size(), t2.allocation_size(), t3.allocation_size(), t4.allocation_size(), t5.allocation_size());
        drop((t1, t2, t3, t4, t5));
        if a1 != a0 || sizes != (0, 0, 0, 0, 0) {
            bad!("C08", "empty-constructor-allocates", "HashMap new/with_capacity(0)/default: {} global allocations, allocation_size {:?}", a1 - a0, sizes);
        }
        Ok(())
    }
    fn dump(&self) -> Dump {
        conv_dump(self.0.verif_dump())
    }
    fn len(&self) -> usize {
        self.0.len()
    }
    fn capacity(&self) -> usize {
        self.0.capacity()
    }
    fn allocation_size(&self) -> usize {
        self.0.allocation_size()
    }
    fn insert(&mut self, id: u64, _plan: &Plan) -> Result<bool, Bad> {
        match self.0.insert(E::make(id), E::make(vid(id, E::id_space()))) {
            Some(old) => {
                if !old.verify() {
                    bad!("C02", "old-value-garbage", "HashMap::insert returned an old value that fails its self-check");
                }
                Ok(false)
            }
            None => Ok(true),
        }
    }
    fn remove(&mut self, id: u64, _plan: &Plan) -> Result<bool, Bad> {
        match self.0.remove_entry(&E::make(id)) {
            Some((k, v)) => {
                if k.id() != id || !k.verify() || !v.verify() || v.id() != vid(id, E::id_space()) {
                    bad!("C02", "removed-element-garbage", "HashMap::remove_entry({id}) returned ({}, {})", k.id(), v.id());
                }
                Ok(true)
            }
            None => Ok(false),
        }
    }
    fn contains(&self, id: u64, _plan: &Plan) -> Result<bool, Bad> {
        let d = self.dump();
        match self.0.get_key_value(&E::make(id)) {
            Some((k, v)) => {
                Self::check_pair(k, v, &d, "HashMap::get_key_value")?;
                Ok(true)
            }
            None => Ok(false),
        }
    }
    fn ids(&self) -> Result<Vec<u64>, Bad> {
        let d = self.dump();
        let mut out = Vec::new();
        for (k, v) in self.0.iter() {
            Self::check_pair(k, v, &d, "HashMap::iter item")?;
            out.push(k.id());
        }
        Ok(out)
    }
    fn reserve(&mut self, n: usize) {
        self.0.reserve(n);
    }
    fn try_reserve(&mut self, n: usize) -> Result<(), hb::TryReserveError> {
        self.0.try_reserve(n)
    }
    fn shrink_to(&mut self, m: usize) {
        self.0.shrink_to(m);
    }
    fn shrink_to_fit(&mut self) {
        self.0.shrink_to_fit();
    }
    fn clear(&mut self) {
        self.0.clear();
    }
    fn clone_c(&self) -> Self {
        MapC(self.0.clone())
    }
    fn clone_from_c(&mut self, o: &Self) {
        self.0.clone_from(&o.0);
    }
    fn retain(&mut self, salt: u64, pct: u64) {
        self.0.retain(|k, _| keep(k.id(), salt, pct));
    }
    fn extract_seq(&mut self, pattern: u64) -> Result<(Vec<(u64, bool)>, Vec<u64>), Bad> {
        let mut calls: Vec<(u64, bool)> = Vec::new();
        let mut yielded = Vec::new();
        for (k, v) in self.0.extract_if(|k, _| {
            let ans = (pattern >> (calls.len() % 64)) & 1 == 1;
            calls.push((k.id(), ans));
            ans
        }) {
            if !k.verify() || !v.verify() {
                bad!("C02", "extracted-element-garbage", "HashMap::extract_if yielded garbage");
            }
            yielded.push(k.id());
        }
        Ok((calls, yielded))
    }
    fn counts(&self) -> [usize; 3] {
        let mut a = 0;
        let mut it = self.0.iter();
        while it.next().is_some() {
            a += 1;
        }
        // into_iter, into_keys and into_values of clones must agree
        let mut b = 0;
        let mut it = self.0.clone().into_iter();
        while it.next().is_some() {
            b += 1;
        }
        let mut bk = 0;
        let mut it = self.0.clone().into_keys();
        while it.next().is_some() {
            bk += 1;
        }
        let mut bv = 0;
        let mut it = self.0.clone().into_values();
        while it.next().is_some() {
            bv += 1;
        }
        if bk != b || bv != b {
            b = usize::MAX;
        }
        let mut c = 0;
        let mut t = self.0.clone();
        {
            let mut it = t.drain();
            while it.next().is_some() {
                c += 1;
            }
        }
        [a, b, c]
    }
    fn get_many(&mut self, id: u64, absent: Option<u64>, _plan: &Plan) -> Result<Option<(bool, bool)>, Bad> {
        let d = self.dump();
        let k = E::make(id);
        Ok(Some(match absent {
            None => {
                let [a] = self.0.get_many_mut([&k]);
                if let Some(v) = &a {
                    check_elem(&**v, &d, "HashMap::get_many_mut value")?;
                }
                (a.is_some(), false)
            }
            Some(x) => {
                let kx = E::make(x);
                let [a, b] = self.0.get_many_mut([&k, &kx]);
                if let Some(v) = &a {
                    check_elem(&**v, &d, "HashMap::get_many_mut value")?;
                }
                (a.is_some(), b.is_some())
            }
        }))
    }
    fn life(&mut self, kind: u64, j: usize, forget: bool, key: u64, _plan: &Plan) -> Result<After, Bad> {
        let d = self.dump();
        macro_rules! walk {
            ($it:expr, $chk:expr) => {{
                let mut it = $it;
                for _ in 0..j {
                    if let Some(x) = it.next() {
                        #[allow(clippy::redundant_closure_call)]
                        ($chk)(x)?;
                    }
                }
                dbg_touch(&it);
                end(it, forget);
            }};
            (nodebug $it:expr, $chk:expr) => {{
                let mut it = $it;
                for _ in 0..j {
                    if let Some(x) = it.next() {
                        #[allow(clippy::redundant_closure_call)]
                        ($chk)(x)?;
                    }
                }
                end(it, forget);
            }};
        }
        match kind % Self::N_LIFE {
            0 => {
                walk!(self.0.iter(), |(k, v): (&E, &E)| Self::check_pair(k, v, &d, "HashMap::iter item"));
                Ok(After::Same)
            }
            1 => {
                walk!(self.0.iter_mut(), |(k, v): (&E, &mut E)| Self::check_pair(k, v, &d, "HashMap::iter_mut item"));
                Ok(After::Same)
            }
            2 => {
                walk!(self.0.keys(), |k: &E| check_elem(k, &d, "HashMap::keys item"));
                Ok(After::Same)
            }
            3 => {
                walk!(self.0.values(), |v: &E| check_elem(v, &d, "HashMap::values item"));
                Ok(After::Same)
            }
            4 => {
                walk!(self.0.values_mut(), |v: &mut E| check_elem(v, &d, "HashMap::values_mut item"));
                Ok(After::Same)
            }
            5 => {
                walk!(self.0.drain(), |(k, v): (E, E)| -> Result<(), Bad> {
                    if !k.verify() || !v.verify() {
                        bad!("C02", "drained-element-garbage", "HashMap::drain yielded garbage");
                    }
                    Ok(())
                });
                Ok(After::Subset)
            }
            6 => {
                walk!(nodebug self.0.extract_if(|k, _| k.id() % 2 == 0), |(k, v): (E, E)| -> Result<(), Bad> {
                    if !k.verify() || !v.verify() {
                        bad!("C02", "extracted-element-garbage", "HashMap::extract_if yielded garbage");
                    }
                    Ok(())
                });
                Ok(After::Subset)
            }
            7 | 8 | 9 => {
                let plan = self.0.hasher().plan;
                let old = std::mem::replace(&mut self.0, hb::HashMap::with_hasher_in(PlanBuildHasher::new(plan), CheckAlloc));
                match kind % Self::N_LIFE {
                    7 => walk!(old.into_iter(), |(k, v): (E, E)| -> Result<(), Bad> {
                        if !k.verify() || !v.verify() {
                            bad!("C02", "into_iter-element-garbage", "HashMap::into_iter yielded garbage");
                        }
                        Ok(())
                    }),
                    8 => walk!(old.into_keys(), |k: E| -> Result<(), Bad> {
                        if !k.verify() {
                            bad!("C02", "into_iter-element-garbage", "HashMap::into_keys yielded garbage");
                        }
                        Ok(())
                    }),
                    _ => walk!(old.into_values(), |v: E| -> Result<(), Bad> {
                        if !v.verify() {
                            bad!("C02", "into_iter-element-garbage", "HashMap::into_values yielded garbage");
                        }
                        Ok(())
                    }),
                }
                Ok(After::Consumed)
            }
            10 => {
                let e = self.0.entry(E::make(key));
                end(e, forget);
                Ok(After::Same)
            }
            11 => {
                let e = self.0.raw_entry_mut().from_key(&E::make(key));
                end(e, forget);
                Ok(After::Same)
            }
            12 => {
                let e = self.0.rustc_entry(E::make(key));
                end(e, forget);
                Ok(After::Same)
            }
            _ => {
                let r = self.0.try_insert(E::make(key), E::make(vid(key, E::id_space())));
                match r {
                    Ok(_) => Ok(After::Subset), // a new pair may have been stored: resynchronise
                    Err(e) => {
                        end(e, forget);
                        Ok(After::Same)
                    }
                }
            }
        }
    }
}

// ---------------------------------------------------------------------------------------------

/// Requested `additional` values around every arithmetic boundary (C12).
fn boundary_additional(sel: u64, elem_size: usize) -> usize {
    let sz = elem_size.max(1);
    let table: [usize; 20] = [
        0,
        1,
        usize::MAX,
        usize::MAX - 1,
        isize::MAX as usize,
        isize::MAX as usize + 1,
        isize::MAX as usize - 1,
        usize::MAX / sz,
        (usize::MAX / sz).wrapping_add(1),
        (usize::MAX / sz).wrapping_sub(1),
        isize::MAX as usize / sz,
        (isize::MAX as usize / sz).wrapping_add(1),
        usize::MAX / 8,
        usize::MAX / 8 + 1,
        usize::MAX / 8 * 7,
        usize::MAX / 16,
        1 << 40,
        1 << 32,
        (1 << 31) - 1,
        usize::MAX / 2 / sz,
    ];
    let s = sel as usize;
    if s < 20 {
        table[s]
    } else if s < 84 {
        s - 20 // 0..64
    } else {
        // around 7/8 * 2^k and 2^k, k in 2..=14
        let k = 2 + (s - 84) / 6 % 13;
        let b = 1usize << k;
        let cap = if b < 8 { b - 1 } else { b / 8 * 7 };
        match (s - 84) % 6 {
            0 => cap - 1,
            1 => cap,
            2 => cap + 1,
            3 => b - 1,
            4 => b,
            _ => b + 1,
        }
    }
}

/// Smallest block (bytes, by u128 arithmetic written from the statement of C17) that can hold `n`
/// elements, generously doubled: hashbrown may pick up to twice the minimal bucket count.
fn generous_block_bytes(n: u128, size: usize, align: usize, width: usize) -> u128 {
    let mut b: u128 = 4;
    loop {
        let cap = if b < 8 { b - 1 } else { b / 8 * 7 };
        if cap >= n {
            break;
        }
        b *= 2;
        if b > (1u128 << 100) {
            return u128::MAX;
        }
    }
    let b = (b * 2).max(32);
    let al = align.max(width) as u128;
    let data = (size as u128 * b + al - 1) / al * al;
    data + b + width as u128
}

pub struct LInterp<'c, E: LElem, C: Coll<E>> {
    case: &'c Case,
    coll: C,
    model: Vec<u64>,
    plan: Plan,
    universe: u64,
    next_fresh: u64,
    pub labels: u32,
    pub out: Outcome,
    leak_blocks_ok: bool,
    leak_elems_ok: bool,
    _e: std::marker::PhantomData<E>,
}

impl<'c, E: LElem, C: Coll<E>> LInterp<'c, E, C> {
    pub fn new(case: &'c Case) -> Self {
        let plan = Plan {
            pos_rule: case.h("pos") as u32,
            pos_param: case.h("pos_p") as u32,
            tag_rule: case.h("tag") as u32,
            tag_param: case.h("tag_p") as u32,
            seed: case.h("seed"),
        };
        world::with(|w| w.default_plan = plan);
        let space = E::id_space();
        LInterp {
            case,
            coll: C::with_capacity(case.h("cap") as usize, plan),
            model: Vec::new(),
            plan,
            universe: case.h_or("u", 16).max(1).min(space),
            next_fresh: 0,
            labels: 0,
            out: Outcome::default(),
            leak_blocks_ok: false,
            leak_elems_ok: false,
            _e: std::marker::PhantomData,
        }
    }

    fn kid(&self, a: u64) -> u64 {
        a % self.universe
    }

    /// A not-yet-present id, if the layout can still represent one.
    fn fresh(&mut self) -> Option<u64> {
        let space = E::id_space();
        if space == 1 {
            return if C::DUPLICATES || self.model.is_empty() { Some(0) } else { None };
        }
        for _ in 0..space.min(70000) {
            self.next_fresh += 1;
            let id = (self.universe + self.next_fresh) % space;
            if C::DUPLICATES || !self.model.contains(&id) {
                return Some(id);
            }
        }
        None
    }

    fn do_insert(&mut self, id: u64) -> Result<(), Bad> {
        let present = self.model.contains(&id);
        let new = self.coll.insert(id, &self.plan)?;
        if C::DUPLICATES {
            self.model.push(id);
        } else {
            if new == present {
                bad!("C02", "insert-presence", "{} insert({id}) reported new={new}, present before={present}", C::KIND);
            }
            if !present {
                self.model.push(id);
            }
        }
        Ok(())
    }

    fn do_remove(&mut self, id: u64) -> Result<(), Bad> {
        let pos = self.model.iter().position(|x| *x == id);
        let r = self.coll.remove(id, &self.plan)?;
        if r != pos.is_some() {
            bad!("C02", "remove-presence", "{} remove({id}) = {r}, model present = {}", C::KIND, pos.is_some());
        }
        if let Some(p) = pos {
            self.model.remove(p);
        }
        Ok(())
    }

    pub fn exec(&mut self, op: &Op) -> Result<(), Bad> {
        let a = op.a;
        if self.model.len() > self.case.h_or("size_cap", 3000) as usize && matches!(op.code, ops::FILL_TO_CAPACITY | ops::RESERVE | ops::WITH_CAPACITY) {
            return Ok(());
        }
        match op.code {
            ops::INSERT => {
                let id = self.kid(a[0]);
                self.do_insert(id)?;
            }
            ops::REMOVE => {
                let id = self.kid(a[0]);
                self.do_remove(id)?;
            }
            ops::GET => {
                let id = self.kid(a[0]);
                let r = self.coll.contains(id, &self.plan)?;
                if r != self.model.contains(&id) {
                    bad!("C02", "lookup-presence", "{} lookup({id}) = {r}", C::KIND);
                }
                // get_many_mut (map, table): one request, then the same plus an absent id. With duplicates
                // of `id` stored (tables) one request still resolves to one entry.
                let absent = (0..E::id_space().min(64)).map(|i| (id + 1 + i) % E::id_space().max(1)).find(|x| *x != id && !self.model.contains(x));
                let want = self.model.contains(&id);
                if let Some((one, _)) = self.coll.get_many(id, None, &self.plan)? {
                    if one != want {
                        bad!("C15", "get_many_mut-presence", "{} of {}: get_many_mut([{id}]) is Some={one}, stored={want}", C::KIND, E::name());
                    }
                    if let Some(x) = absent {
                        if let Some((first, second)) = self.coll.get_many(id, Some(x), &self.plan)? {
                            if first != want || second {
                                bad!("C15", "get_many_mut-presence", "{} of {}: get_many_mut([{id}, {x}]) is (Some={first}, Some={second}), stored=({want}, false)", C::KIND, E::name());
                            }
                        }
                    }
                }
            }
            ops::LIFE => {
                let total = self.coll.len();
                let j = frac_to(a[1], total);
                let forget = a[2] % 2 == 1;
                let key = self.kid(a[3]);
                if forget || (j > 0 && j < total) {
                    self.labels |= dump::L_X1;
                }
                let before = self.model.clone();
                if forget {
                    // a forgotten entry / iterator may own a key or elements that are now leaked on purpose
                    self.leak_elems_ok = true;
                }
                let after = self.coll.life(a[0], j, forget, key, &self.plan)?;
                match after {
                    After::Same => {}
                    After::Subset | After::Consumed => {
                        if forget {
                            self.leak_blocks_ok = true;
                            self.leak_elems_ok = true;
                        }
                        // the collection must still be a valid (possibly emptied) collection
                        let d = self.coll.dump();
                        d.validate(!self.leak_blocks_ok || !d.is_singleton).or_else(|b| if b.1 == "V4-block-mismatch" && self.leak_blocks_ok { Ok(()) } else { Err(b) })?;
                        let now = {
                            let _q = Quiet::new();
                            self.coll.ids()?
                        };
                        let mut pool = before.clone();
                        let is_try_insert = matches!(after, After::Subset) && now.len() == before.len() + 1;
                        for id in &now {
                            if let Some(p) = pool.iter().position(|x| x == id) {
                                pool.remove(p);
                            } else if !(is_try_insert && *id == key) {
                                bad!("C02", "element-from-nowhere", "after a {} life-cycle operation the collection holds id {id} which it did not hold before", C::KIND);
                            }
                        }
                        self.model = now;
                    }
                }
            }
            ops::RESERVE => {
                let n = (a[0] % 97) as usize;
                self.coll.reserve(n);
                if self.coll.capacity() < self.coll.len() + n {
                    bad!("C08", "reserve-capacity", "{} reserve({n}): capacity {} < len {} + {n}", C::KIND, self.coll.capacity(), self.coll.len());
                }
                if n == 0 || n == 7 || n == 14 || n == 28 || n == 56 {
                    self.labels |= dump::L_X2;
                }
            }
            ops::SHRINK_TO_FIT | ops::SHRINK_TO => {
                let prev_cap = self.coll.capacity();
                let prev_size = self.coll.allocation_size();
                let len = self.coll.len();
                let m = if op.code == ops::SHRINK_TO { frac_to(a[0], 2 * prev_cap + 2) } else { 0 };
                if op.code == ops::SHRINK_TO {
                    self.coll.shrink_to(m);
                } else {
                    self.coll.shrink_to_fit();
                }
                let cap = self.coll.capacity();
                let size = self.coll.allocation_size();
                if size > prev_size {
                    bad!("C08", "shrink-enlarged", "{} shrink_to({m}): allocation {} -> {}", C::KIND, prev_size, size);
                }
                if cap < len.max(m.min(prev_cap)) {
                    bad!("C08", "shrink-capacity", "{} shrink_to({m}): capacity {cap} < max(len {len}, min(m, prev {prev_cap}))", C::KIND);
                }
                if len == 0 && m == 0 && size != 0 {
                    bad!("C08", "shrink-empty-keeps-block", "{} shrink_to(0) of an empty collection left {size} bytes", C::KIND);
                }
                if !(len == 0 && m == 0) {
                    let fresh = C::with_capacity(len.max(m), self.plan);
                    let fs = fresh.allocation_size();
                    drop(fresh);
                    if size > fs {
                        bad!("C08", "shrink-not-tight", "{} shrink_to({m}) len {len}: allocation {size} > fresh with_capacity({}) = {fs}", C::KIND, len.max(m));
                    }
                }
            }
            ops::CLEAR => {
                let before = self.coll.allocation_size();
                self.coll.clear();
                self.model.clear();
                if self.coll.allocation_size() != before {
                    bad!("C08", "clear-changed-allocation", "{} clear: allocation_size {} -> {}", C::KIND, before, self.coll.allocation_size());
                }
            }
            ops::CLONE_SWAP => {
                let c = self.coll.clone_c();
                if c.len() != self.model.len() {
                    bad!("C11", "clone-not-equal", "{} of {}: clone holds {} elements, source {}", C::KIND, E::name(), c.len(), self.model.len());
                }
                let counts = {
                    let _q = Quiet::new();
                    self.coll.counts()
                };
                if counts != [self.model.len(); 3] {
                    bad!("C09", "yield-count", "{} of {}: iter() / into_iter() / drain() advanced by next() yield {:?} elements, len() is {}", C::KIND, E::name(), counts, self.model.len());
                }
                if a[0] % 2 == 0 {
                    self.coll = c;
                } else {
                    let mut c = c;
                    if c.dump().n_deleted() > 0 {
                        self.labels |= dump::L_CLONE_FROM_DIFF;
                    }
                    c.clone_from_c(&self.coll);
                    self.coll = c;
                }
                // tracked layouts: the World sees an element dropped twice, or (zero-sized tracked
                // elements are counted) more drops than constructions if a clone skips Clone::clone
            }
            ops::FILL_TO_CAPACITY => {
                let room = (self.coll.capacity() - self.coll.len()).min(1024);
                let st0 = alloc::stats();
                for jx in 0..room {
                    let Some(id) = self.fresh() else { break };
                    self.do_insert(id)?;
                    let st = alloc::stats();
                    if st.n_alloc != st0.n_alloc || st.n_dealloc != st0.n_dealloc {
                        bad!("C08", "insert-within-capacity-allocated", "{} of {}: insert {} of {room} promised by capacity()-len() called the allocator", C::KIND, E::name(), jx + 1);
                    }
                }
                self.labels |= dump::L_X2;
            }
            ops::REMOVE_RUN => {
                let n = (a[1] % 41) as usize;
                let len = self.model.len();
                if len > 0 {
                    let start = frac_index(a[0], len);
                    let ids: Vec<u64> = (0..n.min(len)).map(|i| self.model[(start + i) % len]).collect();
                    for id in ids {
                        if self.model.contains(&id) {
                            self.do_remove(id)?;
                        }
                    }
                }
            }
            ops::RETAIN => {
                let (salt, pct) = (a[0], a[1] % 101);
                if a[0] % 3 == 2 {
                    // extract_if driven to the end with a predicate whose answers follow a bit pattern by
                    // call index (they differ even between indistinguishable elements)
                    let pattern = splitmix64(a[0] ^ (a[1] << 32));
                    let before = self.model.len();
                    let (calls, yielded) = self.coll.extract_seq(pattern)?;
                    let expect: Vec<u64> = calls.iter().filter(|c| c.1).map(|c| c.0).collect();
                    if calls.len() != before {
                        bad!("C10", "extract_if-predicate-calls", "{} of {}: extract_if driven to the end called the predicate {} times for {before} elements", C::KIND, E::name(), calls.len());
                    }
                    if yielded != expect {
                        bad!("C10", "extract_if-yield", "{} of {}: extract_if yielded {} elements {:?}, the predicate said true for {} {:?}", C::KIND, E::name(), yielded.len(), &yielded[..yielded.len().min(8)], expect.len(), &expect[..expect.len().min(8)]);
                    }
                    for id in &yielded {
                        match self.model.iter().position(|m| m == id) {
                            Some(i) => {
                                self.model.swap_remove(i);
                            }
                            None => bad!("C10", "extract_if-yield", "{} of {}: extract_if yielded id {id} which was not stored (any more)", C::KIND, E::name()),
                        }
                    }
                    return Ok(());
                }
                self.coll.retain(salt, pct);
                self.model.retain(|id| keep(*id, salt, pct));
            }
            ops::WITH_CAPACITY => {
                let n = frac_to(a[0], 300);
                let st0 = alloc::stats();
                let fresh = C::with_capacity(n, self.plan);
                let st1 = alloc::stats();
                if fresh.capacity() < n {
                    bad!("C08", "with_capacity-capacity", "{} with_capacity({n}) gave capacity {}", C::KIND, fresh.capacity());
                }
                if n == 0 && (st1.n_alloc != st0.n_alloc || fresh.allocation_size() != 0) {
                    bad!("C08", "empty-constructor-allocates", "{} with_capacity_in(0) allocated", C::KIND);
                }
                self.coll = fresh;
                self.model.clear();
                C::global_ctor_probe()?;
                self.labels |= dump::L_X2;
            }
            ops::TRY_RESERVE => self.try_reserve_op(a[0] % 162, a[1] % 4, a[2])?,
            _ => {}
        }
        Ok(())
    }

    fn try_reserve_op(&mut self, sel: u64, mode: u64, x: u64) -> Result<(), Bad> {
        let additional = boundary_additional(sel, E::SIZE);
        let d0 = self.coll.dump();
        let len = self.coll.len();
        let cap0 = self.coll.capacity();
        let size0 = self.coll.allocation_size();
        let ids0 = {
            let _q = Quiet::new();
            let mut v = self.coll.ids()?;
            v.sort_unstable();
            v
        };
        let serials0 = world::n_serials();
        let live0 = world::with(|w| w.live_elems);
        let blocks0 = alloc::stats().n_live;
        // allocator behaviour
        let limit: usize = match mode {
            2 => 64 + (x % 8192) as usize,
            3 => 1 << 20,
            _ => 64 << 20,
        };
        alloc::with_ledger(|l| {
            l.limit = Some(limit);
            l.refuse_nth = if mode == 1 { Some(1 + x % 2) } else { None };
            l.refused.clear();
            l.requests.clear();
        });
        let coll = &mut self.coll;
        let r = catch_unwind(AssertUnwindSafe(|| coll.try_reserve(additional)));
        let (refused, requests) = alloc::with_ledger(|l| {
            l.limit = Some(1 << 28);
            l.refuse_nth = None;
            (l.refused.clone(), l.requests.clone())
        });
        let r = match r {
            Ok(r) => r,
            Err(p) => {
                drop(p);
                let msg = world::last_panic_message().unwrap_or_default();
                bad!("C12", "try_reserve-panicked", "{} of {}: try_reserve({additional}) panicked: {msg}", C::KIND, E::name());
            }
        };
        if additional >= 1 << 31 || !ids0.is_empty() {
            self.labels |= dump::L_X3;
        }
        self.out.count(match &r {
            Ok(()) => "try_reserve_ok",
            Err(hb::TryReserveError::CapacityOverflow) => "try_reserve_capacity_overflow",
            Err(hb::TryReserveError::AllocError { .. }) => "try_reserve_alloc_error",
        }, 1);
        match r {
            Ok(()) => {
                if (self.coll.capacity() as u128) < len as u128 + additional as u128 {
                    bad!("C12", "try_reserve-capacity", "{} try_reserve({additional}) = Ok but capacity {} < len {len} + additional", C::KIND, self.coll.capacity());
                }
            }
            Err(e) => {
                self.labels |= dump::L_X3;
                let need = generous_block_bytes(len as u128 + additional as u128, E::SIZE * if C::KIND == "map" { 2 } else { 1 }, E::ALIGN, d0.group_width);
                match &e {
                    hb::TryReserveError::CapacityOverflow => {
                        if need <= limit as u128 {
                            bad!("C12", "spurious-capacity-overflow", "{} of {}: try_reserve({additional}) at len {len} reported CapacityOverflow but at most {need} bytes are needed", C::KIND, E::name());
                        }
                    }
                    hb::TryReserveError::AllocError { layout } => {
                        if !refused.contains(&(layout.size(), layout.align())) {
                            bad!("C12", "alloc-error-layout", "{}: AllocError carries layout ({}, {}) but the allocator refused {:?} (requests {:?})", C::KIND, layout.size(), layout.align(), refused, requests);
                        }
                        if mode == 0 && need <= limit as u128 && refused.iter().all(|r| r.0 as u128 <= need) {
                            bad!("C12", "spurious-alloc-error", "{}: granting allocator, yet AllocError", C::KIND);
                        }
                    }
                }
                // nothing may have changed
                let d1 = self.coll.dump();
                let ids1 = {
                    let _q = Quiet::new();
                    let mut v = self.coll.ids()?;
                    v.sort_unstable();
                    v
                };
                if ids1 != ids0 || self.coll.len() != len || self.coll.capacity() != cap0 || self.coll.allocation_size() != size0 || d1.ctrl_addr != d0.ctrl_addr {
                    bad!("C12", "error-changed-collection", "{}: after Err({e:?}) len {} -> {}, capacity {} -> {}, allocation {} -> {}, ctrl {:#x} -> {:#x}", C::KIND, len, self.coll.len(), cap0, self.coll.capacity(), size0, self.coll.allocation_size(), d0.ctrl_addr, d1.ctrl_addr);
                }
                if world::n_serials() != serials0 || world::with(|w| w.live_elems) != live0 {
                    bad!("C12", "error-touched-elements", "{}: elements were created or dropped by a failing try_reserve", C::KIND);
                }
                if alloc::stats().n_live != blocks0 {
                    bad!("C12", "error-leaked-block", "{}: {} blocks live before, {} after a failing try_reserve", C::KIND, blocks0, alloc::stats().n_live);
                }
            }
        }
        Ok(())
    }

    pub fn check_state(&mut self) -> Result<(), Bad> {
        if let Some(v) = world::take_violation() {
            return Err((v.property, Box::leak(v.kind.into_boxed_str()), v.detail));
        }
        let d = self.coll.dump();
        let ledger = !self.leak_blocks_ok;
        match d.validate(true) {
            Ok(()) => {}
            Err(b) if b.1 == "V4-block-mismatch" && !ledger => {}
            Err(b) => return Err(b),
        }
        let asz = self.coll.allocation_size();
        let want = if d.is_singleton { 0 } else { d.predicted_block().1 };
        if asz != want {
            bad!("C08", "allocation_size", "{} allocation_size() = {asz}, block held = {want}", C::KIND);
        }
        if self.coll.capacity() < self.coll.len() {
            bad!("C08", "capacity-below-len", "capacity {} < len {}", self.coll.capacity(), self.coll.len());
        }
        let _q = Quiet::new();
        let mut got = self.coll.ids()?;
        got.sort_unstable();
        let mut want = self.model.clone();
        want.sort_unstable();
        if got != want {
            bad!("C02", "contents-differ", "{} of {}: holds {} elements, model {} (first ids {:?} vs {:?})", C::KIND, E::name(), got.len(), want.len(), &got[..got.len().min(6)], &want[..want.len().min(6)]);
        }
        if self.coll.len() != self.model.len() {
            bad!("C02", "len", "{} len() {} model {}", C::KIND, self.coll.len(), self.model.len());
        }
        let st = alloc::stats();
        let exp = if d.is_singleton { 0 } else { 1 };
        if ledger && st.n_live != exp {
            bad!("C03", "block-accounting", "ledger holds {} blocks, the collection owns {exp}", st.n_live);
        }
        alloc::check_zones(false);
        if let Some(v) = world::take_violation() {
            return Err((v.property, Box::leak(v.kind.into_boxed_str()), v.detail));
        }
        Ok(())
    }

    fn to_violation(&self, step: usize, b: Bad) -> Violation {
        Violation { property: b.0, kind: b.1.to_string(), step, detail: b.2 }
    }

    pub fn step(&mut self, step: usize, op: &Op) -> Result<(), Violation> {
        alloc::begin_op();
        let before = self.coll.dump();
        world::clear_panic_messages();
        let r = catch_unwind(AssertUnwindSafe(|| self.exec(op)));
        match r {
            Err(payload) => {
                let msg = world::last_panic_message().unwrap_or_else(|| "<no message>".into());
                drop(payload);
                return Err(Violation { property: "C02", kind: "unexpected-panic".into(), step, detail: format!("{} of {}: operation panicked: {msg}", C::KIND, E::name()) });
            }
            Ok(Err(b)) => return Err(self.to_violation(step, b)),
            Ok(Ok(())) => {}
        }
        if let Err(b) = self.check_state() {
            return Err(self.to_violation(step, b));
        }
        let after = self.coll.dump();
        self.labels |= dump::transition_labels(&before, &after, true);
        Ok(())
    }

    pub fn finish(self, step: usize) -> (Outcome, Option<Violation>) {
        let LInterp { coll, mut out, labels, leak_blocks_ok, leak_elems_ok, .. } = self;
        out.labels = labels;
        let r = catch_unwind(AssertUnwindSafe(move || drop(coll)));
        if let Err(p) = r {
            drop(p);
            let msg = world::last_panic_message().unwrap_or_default();
            return (out, Some(Violation { property: "C02", kind: "unexpected-panic".into(), step, detail: format!("dropping the collection panicked: {msg}") }));
        }
        alloc::check_zones(true);
        if let Some(v) = world::take_violation() {
            return (out, Some(v));
        }
        let st = alloc::stats();
        if st.n_live != 0 && !leak_blocks_ok {
            return (out, Some(Violation { property: "C03", kind: "block-leaked".into(), step, detail: format!("{} blocks still allocated after the collection was dropped", st.n_live) }));
        }
        let live = world::with(|w| w.live_elems);
        if live != 0 && !leak_elems_ok {
            return (out, Some(Violation { property: "C03", kind: "element-leaked".into(), step, detail: format!("{live} tracked elements never dropped") }));
        }
        let (zm, zd) = world::with(|w| (w.zst_made, w.zst_dropped));
        if zm != zd && !leak_elems_ok {
            return (out, Some(Violation { property: "C03", kind: "element-leaked".into(), step, detail: format!("{zm} zero-sized elements with drop glue were constructed but {zd} dropped") }));
        }
        (out, None)
    }
}

fn run_coll<E: LElem, C: Coll<E>>(case: &Case) -> Outcome {
    world::install_panic_hook();
    world::reset();
    // an allocator may hand out blocks longer than requested (and say so): `slack` extra bytes
    alloc::with_ledger(|l| l.slack = case.h("slack") as usize);
    let mut it: LInterp<'_, E, C> = LInterp::new(case);
    let mut violation = None;
    let mut steps = 0;
    for (i, op) in case.ops.iter().enumerate() {
        world::set_step(i);
        steps = i + 1;
        if let Err(v) = it.step(i, op) {
            violation = Some(v);
            break;
        }
    }
    if let Some(v) = violation {
        let labels = it.labels;
        let mut out = std::mem::take(&mut it.out);
        std::mem::forget(it);
        out.labels = labels;
        out.violation = Some(v);
        out.steps = steps;
        world::with(|w| w.quiet = 0);
        return out;
    }
    let (mut out, v) = it.finish(steps);
    out.violation = v;
    out.steps = steps;
    out
}

fn run_layout<E: LElem>(case: &Case) -> Outcome {
    match case.h("coll") % 3 {
        0 => run_coll::<E, TableC<E>>(case),
        1 => run_coll::<E, SetC<E>>(case),
        _ => run_coll::<E, MapC<E>>(case),
    }
}

pub fn run_case(case: &Case) -> Outcome {
    crate::with_layout!(case.h("layout"), run_layout, case)
}
