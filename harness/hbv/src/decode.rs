//! Total decoder from fuzzer bytes to structured cases (construction, not rejection): every byte
//! string is a valid case. The first bytes choose back-end, element flavour, hash plan, universe
//! and capacity; the rest is a stream of op-code + bounded operands.

use crate::case::{Arg, Case, Op, MAX_ARGS};
use crate::specs;

pub struct Bytes<'a> {
    d: &'a [u8],
    i: usize,
}

impl<'a> Bytes<'a> {
    pub fn new(d: &'a [u8]) -> Self {
        Bytes { d, i: 0 }
    }
    pub fn done(&self) -> bool {
        self.i >= self.d.len()
    }
    pub fn u8(&mut self) -> u8 {
        let v = self.d.get(self.i).copied().unwrap_or(0);
        self.i += 1;
        v
    }
    pub fn u16(&mut self) -> u16 {
        (self.u8() as u16) | ((self.u8() as u16) << 8)
    }
    pub fn u64(&mut self) -> u64 {
        let mut v = 0u64;
        for k in 0..8 {
            v |= (self.u8() as u64) << (8 * k);
        }
        v
    }
    /// value in 0..n
    pub fn below(&mut self, n: u64) -> u64 {
        if n <= 1 {
            0
        } else if n <= 256 {
            self.u8() as u64 % n
        } else if n <= 65536 {
            self.u16() as u64 % n
        } else {
            self.u64() % n
        }
    }
}

fn arg(b: &mut Bytes<'_>, kind: Arg, universe: u64) -> u64 {
    match kind {
        Arg::Key => b.below(universe.max(1)),
        Arg::Val => b.below(1000),
        Arg::Small(n) => b.below(n + 1),
        Arg::Frac => b.u16() as u64,
        Arg::Bool => b.below(2),
        Arg::Choice(n) => b.below(n.max(1)),
        Arg::Any => {
            let t = b.u8();
            if t < 192 {
                (t % 64) as u64
            } else {
                b.u64()
            }
        }
        Arg::Wide => b.u64(),
    }
}

const UNIVERSES: [u64; 6] = [4, 8, 16, 24, 64, 400];
const CAPS: [u64; 12] = [0, 0, 0, 1, 3, 4, 7, 14, 15, 28, 56, 112];

fn plan(b: &mut Bytes<'_>, c: &mut Case, prefix: &str) {
    c.set(&format!("{prefix}pos"), b.below(8));
    c.set(&format!("{prefix}pos_p"), b.below(64));
    c.set(&format!("{prefix}tag"), b.below(4));
    c.set(&format!("{prefix}tag_p"), b.below(128));
    c.set(&format!("{prefix}seed"), b.below(1000));
}

/// `flavour`: "map", "table", "set", "lay", "serde", plus the map variants "panic" (fault
/// injection), "chaos" (inconsistent Hash/Eq) and the lay variant "try_reserve".
pub fn decode(flavour: &str, data: &[u8]) -> Case {
    let mut b = Bytes::new(data);
    let kind = match flavour {
        "panic" | "chaos" => "map",
        "try_reserve" => "lay",
        k => k,
    };
    let mut c = Case::new(kind);
    let backend = b.below(4);
    c.set("backend", (backend == 0) as u64); // 1 in 4 on the portable twin
    let universe = UNIVERSES[b.below(6) as usize];
    c.set("u", universe);
    c.set("cap", CAPS[b.below(12) as usize]);
    c.set("size_cap", 600);
    plan(&mut b, &mut c, "");
    let specs = specs::specs_for(kind);
    let mut key_space = universe;
    match kind {
        "map" => {
            c.set("elem", (b.below(10) < 3) as u64);
            c.set("b_cap", CAPS[b.below(12) as usize]);
            plan(&mut b, &mut c, "b_");
            c.set("prop", 1);
            if flavour == "chaos" {
                c.set("chaos", 1 + b.below(8));
                c.set("tape_len", 1 + b.below(47));
                c.set("tape_seed", b.below(1000));
                c.set("tape_small", b.below(2));
                c.set("prop", 5);
            }
        }
        "table" => {
            c.set("elem", (b.below(10) < 3) as u64);
            let nh = [1u64, 2, 4, 16, 64][b.below(5) as usize];
            let u = [2u64, 6, 16, 64][b.below(4) as usize];
            c.set("nh", nh);
            c.set("u", u);
            key_space = u * nh;
            c.set("prop", 6);
        }
        "set" => {
            c.set("elem", (b.below(10) < 3) as u64);
            c.set("b_cap", CAPS[b.below(12) as usize]);
            plan(&mut b, &mut c, "b_");
            c.set("prop", 7);
        }
        "lay" => {
            c.set("layout", b.below(crate::layouts::N_LAYOUTS));
            c.set("coll", b.below(3));
            c.set("u", [4u64, 12, 40, 200][b.below(4) as usize]);
            key_space = c.h("u");
            c.set("prop", if flavour == "try_reserve" { 12 } else { 2 });
        }
        "serde" => {
            c.set("coll", b.below(2));
            c.set("mode", b.below(4));
            c.set("hint", b.below(20));
            c.set("pre", b.below(40));
            // derived (not an extra input byte, so that the committed corpus keeps its meaning)
            let pre = c.h("pre");
            c.set("etype", if pre >= 28 { 1 + (pre - 28) % 6 } else { 0 });
            let u = [3u64, 10, 60, 5000][b.below(4) as usize];
            key_space = u;
            let err = b.u16() as u64;
            c.set("err", if err % 3 == 0 { 1 + (err / 3) % 200 } else { 0 });
            c.set("prop", 20);
        }
        _ => {}
    }
    let fault = if flavour == "panic" { Some((b.u16() as u64, b.below(crate::world::NCLASS as u64), 1 + b.below(40))) } else { None };
    let mut guard = 0;
    while !b.done() && guard < 400 {
        guard += 1;
        let idx = b.u8() as usize % specs.len().max(1);
        let Some(spec) = specs.get(idx) else { break };
        if flavour == "try_reserve" && b.below(2) == 0 {
            // half of the operations are try_reserve
            let s = specs.iter().find(|s| s.name == "try_reserve").unwrap();
            let mut a = [0u64; MAX_ARGS];
            for (i, k) in s.args.iter().enumerate() {
                a[i] = arg(&mut b, *k, key_space);
            }
            c.ops.push(Op { code: s.code, a });
            continue;
        }
        let mut a = [0u64; MAX_ARGS];
        for (i, k) in spec.args.iter().enumerate() {
            a[i] = arg(&mut b, *k, key_space);
        }
        c.ops.push(Op { code: spec.code, a });
    }
    if let Some((frac, class, k)) = fault {
        if !c.ops.is_empty() {
            c.set("fault_step", crate::case::frac_index(frac, c.ops.len()) as u64);
            c.set("fault_class", class);
            c.set("fault_k", k);
            c.set("prop", 4);
        }
    }
    c
}

/// Run a decoded case; on a violation return its text form and the violation line.
pub fn run_decoded(flavour: &str, data: &[u8]) -> Result<(), (String, String)> {
    let case = decode(flavour, data);
    let out = crate::run_case(&case);
    match out.violation {
        None => Ok(()),
        Some(v) => Err((
            case.to_text(specs::specs_for(&case.kind)),
            format!("VIOLATION-RECORD property={} kind={} step={} detail={}", v.property, v.kind, v.step, v.detail),
        )),
    }
}
