// C20 over plain element types ("serialising ANY HashMap or HashSet"): zero-sized, one-byte,
// string and wide keys with serde's own impls. Included once per back-end by interp_serde.rs.

use serde::de::{DeserializeOwned, IntoDeserializer};
use serde::Serialize;
use std::collections::{BTreeMap, BTreeSet};
use std::fmt::Debug;
use std::hash::Hash;

pub trait PlainElem:
    Clone + Ord + Hash + Eq + Debug + Serialize + DeserializeOwned + IntoDeserializer<'static, VError> + 'static
{
    fn from_id(id: u64) -> Self;
    /// serde_json accepts it as an object key
    const JSON_KEY: bool;
}
impl PlainElem for () {
    fn from_id(_: u64) -> Self {}
    const JSON_KEY: bool = false;
}
impl PlainElem for u8 {
    fn from_id(id: u64) -> Self {
        id as u8
    }
    const JSON_KEY: bool = true;
}
impl PlainElem for u64 {
    fn from_id(id: u64) -> Self {
        id.wrapping_mul(0x9E37_79B9_7F4A_7C15)
    }
    const JSON_KEY: bool = true;
}
impl PlainElem for bool {
    fn from_id(id: u64) -> Self {
        id % 2 == 1
    }
    const JSON_KEY: bool = false;
}
impl PlainElem for String {
    fn from_id(id: u64) -> Self {
        format!("k{id}")
    }
    const JSON_KEY: bool = true;
}

type PMap<K, V> = hb::HashMap<K, V, PlanBuildHasher, CheckAlloc>;
type PSet<K> = hb::HashSet<K, PlanBuildHasher, CheckAlloc>;

fn pcontents_map<K: PlainElem, V: PlainElem>(m: &PMap<K, V>) -> Vec<(K, V)> {
    let mut v: Vec<(K, V)> = m.iter().map(|(k, v)| (k.clone(), v.clone())).collect();
    v.sort();
    v
}
fn pcontents_set<K: PlainElem>(s: &PSet<K>) -> Vec<K> {
    let mut v: Vec<K> = s.iter().cloned().collect();
    v.sort();
    v
}
fn head<T: Debug>(v: &[T]) -> String {
    format!("{:?}{}", &v[..v.len().min(8)], if v.len() > 8 { " .." } else { "" })
}

pub fn run_plain<K: PlainElem, V: PlainElem>(case: &Case, out: &mut Outcome, plan: Plan, claim: Option<usize>) -> Result<(), Bad> {
    let entries: Vec<(K, V)> = case.ops.iter().map(|o| (K::from_id(o.a[0]), V::from_id(o.a[1]))).collect();
    let is_set = case.h("coll") == 1;
    let mode = case.h("mode") % 4;
    let tn = std::any::type_name::<(K, V)>();
    let want_map: Vec<(K, V)> = {
        let mut m: BTreeMap<K, V> = BTreeMap::new();
        for (k, v) in &entries {
            m.insert(k.clone(), v.clone());
        }
        m.into_iter().collect()
    };
    let want_set: Vec<K> = entries.iter().map(|e| e.0.clone()).collect::<BTreeSet<K>>().into_iter().collect();
    if want_set.len() < entries.len() {
        out.labels |= crate::dump::L_X1;
    }
    if claim.map_or(false, |c| c > 4096) {
        out.labels |= crate::dump::L_X2;
    }
    let cap_block = if is_set {
        PSet::<K>::with_capacity_and_hasher_in(4096, PlanBuildHasher::new(plan), CheckAlloc).allocation_size()
    } else {
        PMap::<K, V>::with_capacity_and_hasher_in(4096, PlanBuildHasher::new(plan), CheckAlloc).allocation_size()
    };
    let json = mode == 0 && (is_set || K::JSON_KEY);
    if json {
        if is_set {
            let mut s: PSet<K> = PSet::with_hasher_in(PlanBuildHasher::new(plan), CheckAlloc);
            for (k, _) in &entries {
                s.insert(k.clone());
            }
            let text = serde_json::to_string(&s).map_err(|e| ("C20", "serialize-failed", format!("{tn}: {e}")))?;
            let back: PSet<K> = serde_json::from_str(&text).map_err(|e| ("C20", "roundtrip-deserialize-failed", format!("{tn}: {e}: {text}")))?;
            if back != s || s != back || pcontents_set(&back) != want_set {
                bad!("C20", "roundtrip-differs", "{tn}: set {} came back as {}", head(&want_set), head(&pcontents_set(&back)));
            }
        } else {
            let mut m: PMap<K, V> = PMap::with_hasher_in(PlanBuildHasher::new(plan), CheckAlloc);
            for (k, v) in &entries {
                m.insert(k.clone(), v.clone());
            }
            let text = serde_json::to_string(&m).map_err(|e| ("C20", "serialize-failed", format!("{tn}: {e}")))?;
            let back: PMap<K, V> = serde_json::from_str(&text).map_err(|e| ("C20", "roundtrip-deserialize-failed", format!("{tn}: {e}: {text}")))?;
            if back != m || m != back || pcontents_map(&back) != want_map {
                bad!("C20", "roundtrip-differs", "{tn}: map {} came back as {}", head(&want_map), head(&pcontents_map(&back)));
            }
        }
    } else {
        RESERVED_AT_FIRST_READ.with(|r| r.set(None));
        let bytes0 = alloc::stats().bytes_live;
        if is_set {
            let ids: Vec<K> = entries.iter().map(|e| e.0.clone()).collect();
            let it = Lying { inner: ids.into_iter(), claim, reads: 0 };
            let de: SeqDeserializer<_, VError> = SeqDeserializer::new(it);
            let r: Result<PSet<K>, VError> = if mode == 3 {
                let mut place: PSet<K> = PSet::with_hasher_in(PlanBuildHasher::new(plan), CheckAlloc);
                for i in 0..(case.h("pre") % 40) {
                    place.insert(K::from_id(10_000 + i));
                }
                <PSet<K> as Deserialize>::deserialize_in_place(de, &mut place).map(|()| place)
            } else {
                PSet::<K>::deserialize(de)
            };
            match r {
                Ok(s) => {
                    if pcontents_set(&s) != want_set || s.len() != want_set.len() {
                        bad!("C20", "deserialized-contents", "{tn}: set holds {}, input {}", head(&pcontents_set(&s)), head(&want_set));
                    }
                }
                Err(e) => bad!("C20", "spurious-error", "{tn}: deserialize failed without an injected error: {e}"),
            }
        } else {
            let it = Lying { inner: entries.clone().into_iter(), claim, reads: 0 };
            let de: MapDeserializer<'_, _, VError> = MapDeserializer::new(it);
            match PMap::<K, V>::deserialize(de) {
                Ok(m) => {
                    if pcontents_map(&m) != want_map || m.len() != want_map.len() {
                        bad!("C20", "duplicate-keys-last-wins", "{tn}: map holds {}, last-wins model {}", head(&pcontents_map(&m)), head(&want_map));
                    }
                }
                Err(e) => bad!("C20", "spurious-error", "{tn}: deserialize failed without an injected error: {e}"),
            }
        }
        if let Some(at_first) = RESERVED_AT_FIRST_READ.with(|r| r.get()) {
            let reserved = at_first.saturating_sub(bytes0);
            out.count("max_reserved_before_first_read", reserved as u64);
            if reserved > cap_block {
                bad!("C20", "hint-forces-over-allocation", "{tn}: claimed length {:?}: {reserved} bytes were reserved before reading any element, more than with_capacity(4096) = {cap_block}", claim);
            }
        }
    }
    Ok(())
}
