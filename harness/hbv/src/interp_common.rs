// Included once per back-end module (`hb` = hashbrown or hashbrown_generic).

pub fn conv_dump(d: hb::verif::TableDump) -> crate::dump::Dump {
    crate::dump::Dump {
        bucket_mask: d.bucket_mask,
        items: d.items,
        growth_left: d.growth_left,
        ctrl: d.ctrl,
        group_width: d.group_width,
        elem_size: d.elem_size,
        elem_align: d.elem_align,
        ctrl_addr: d.ctrl_addr,
        is_singleton: d.is_singleton,
    }
}

pub const GROUP_WIDTH: usize = hb::verif::GROUP_WIDTH;

#[allow(unused_macros)]
macro_rules! bad {
    ($p:expr, $k:expr, $($fmt:tt)*) => {
        return Err(($p, $k, format!($($fmt)*)))
    };
}

use crate::dump::Bad;

pub fn check_hint<I: ExactSizeIterator>(it: &I, r: usize, what: &str) -> Result<(), Bad> {
    let h = it.size_hint();
    if h != (r, Some(r)) || it.len() != r {
        bad!("C09", "size_hint", "{what}: size_hint {:?} len {} with {r} elements remaining", h, it.len());
    }
    Ok(())
}

/// Drive an exact-size iterator: `prefix` calls of next(), then the continuation.
/// Returns the projected items and whether all yielded items are in the list.
pub fn drive_iter<I, F>(
    mut it: I,
    total: usize,
    prefix: usize,
    cont: u64,
    cloner: Option<&dyn Fn(&I) -> I>,
    what: &str,
    mut proj: F,
) -> Result<(Vec<(u64, u64)>, bool), Bad>
where
    I: ExactSizeIterator,
    F: FnMut(I::Item) -> (u64, u64),
{
    let mut out = Vec::new();
    let mut r = total;
    check_hint(&it, r, what)?;
    for _ in 0..prefix.min(total) {
        match it.next() {
            Some(x) => {
                out.push(proj(x));
                r -= 1;
                check_hint(&it, r, what)?;
            }
            None => bad!("C09", "yields-fewer", "{what}: next() returned None with {r} elements remaining"),
        }
    }
    let mut complete = true;
    match cont {
        1 => {
            let rest = it.fold(Vec::new(), |mut acc, x| {
                acc.push(proj(x));
                acc
            });
            if rest.len() != r {
                bad!("C09", "fold-count", "{what}: fold visited {} elements, {r} remained", rest.len());
            }
            out.extend(rest);
        }
        2 => {
            let mut n = 0;
            it.for_each(|x| {
                n += 1;
                out.push(proj(x));
            });
            if n != r {
                bad!("C09", "for_each-count", "{what}: for_each visited {n} elements, {r} remained");
            }
        }
        4 => {
            let n = it.count();
            if n != r {
                bad!("C09", "count", "{what}: count() = {n}, {r} remained");
            }
            complete = r == 0;
        }
        5 => {
            // dropped early
            complete = r == 0;
            drop(it);
        }
        _ => {
            let mut second: Option<I> = None;
            if cont == 3 {
                if let Some(c) = cloner {
                    second = Some(c(&it));
                }
            }
            let mut first_rest = Vec::new();
            while let Some(x) = it.next() {
                if r == 0 {
                    bad!("C09", "yields-more", "{what}: next() yields more elements than len() announced");
                }
                first_rest.push(proj(x));
                r -= 1;
                check_hint(&it, r, what)?;
            }
            if r != 0 {
                bad!("C09", "yields-fewer", "{what}: exhausted with {r} elements still announced");
            }
            for _ in 0..3 {
                if it.next().is_some() {
                    bad!("C09", "not-fused", "{what}: next() returned Some after None");
                }
            }
            if let Some(mut it2) = second {
                let mut r2 = first_rest.len();
                let mut second_rest = Vec::new();
                check_hint(&it2, r2, what)?;
                while let Some(x) = it2.next() {
                    if r2 == 0 {
                        bad!("C09", "clone-yields-more", "{what}: cloned iterator yields more than the original");
                    }
                    second_rest.push(proj(x));
                    r2 -= 1;
                }
                let mut a = first_rest.clone();
                let mut b = second_rest;
                a.sort_unstable();
                b.sort_unstable();
                if a != b {
                    bad!("C09", "clone-differs", "{what}: cloned iterator yielded {:?}, original {:?}", b, a);
                }
            }
            out.extend(first_rest);
        }
    }
    Ok((out, complete))
}

pub fn compare_yield(mut got: Vec<(u64, u64)>, mut want: Vec<(u64, u64)>, complete: bool, what: &str) -> Result<(), Bad> {
    got.sort_unstable();
    want.sort_unstable();
    if complete {
        if got != want {
            bad!("C09", "yield-multiset", "{what}: yielded {:?}, contents {:?}", &got[..got.len().min(12)], &want[..want.len().min(12)]);
        }
    } else {
        // every yielded item is a distinct stored item
        let mut j = 0;
        for g in &got {
            while j < want.len() && want[j] < *g {
                j += 1;
            }
            if j >= want.len() || want[j] != *g {
                bad!("C09", "yield-not-stored", "{what}: yielded {:?} which is not (or no longer) available in contents", g);
            }
            j += 1;
        }
    }
    Ok(())
}


/// Key with a lawful `Hash` (id only) for any hasher and a payload `Eq` ignores: used where the
/// collection's own `DefaultHashBuilder` is involved (`From<[T; N]>`).
#[derive(Clone, Copy, Debug)]
pub struct ArrKey {
    pub id: u32,
    pub tag: u32,
}
impl PartialEq for ArrKey {
    fn eq(&self, o: &ArrKey) -> bool {
        self.id == o.id
    }
}
impl Eq for ArrKey {}
impl std::hash::Hash for ArrKey {
    fn hash<H: std::hash::Hasher>(&self, h: &mut H) {
        h.write_u32(self.id);
    }
}
