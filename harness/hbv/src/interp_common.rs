// Included once per back-end module (`hb` = hashbrown or hashbrown_generic).

pub fn conv_dump(d: hb::verif::TableDump) -> crate::dump::Dump {
    crate::dump::Dump {
        bucket_mask: d.bucket_mask,
        items: d.items,
        growth_left: d.growth_left,
        ctrl: d.ctrl,
        group_width: d.group_width,
        elem_size: d.elem_size,
        elem_align: d.elem_align,
        ctrl_addr: d.ctrl_addr,
        is_singleton: d.is_singleton,
    }
}

pub const GROUP_WIDTH: usize = hb::verif::GROUP_WIDTH;
