// HashMap interpreter. Included once per back-end (`hb` is the crate under test).
// Applies every operation to the real map and to an association-list model, compares, and runs
// the monitors of DESIGN section 6 after every step.

use crate::alloc::{self, CheckAlloc};
use crate::case::{frac_index, frac_to, Case, Op};
use crate::dump::{self, Bad, Dump};
use crate::elem::{KeyRef, KeyT, ValT, PENDING_GEN};
use crate::outcome::Outcome;
use crate::plan::{splitmix64, Plan, PlanBuildHasher};
use crate::specs::map as ops;
use crate::world::{self, Class, Injected, Quiet, Violation};
use std::panic::{catch_unwind, AssertUnwindSafe};

pub type Map<K, V> = hb::HashMap<K, V, PlanBuildHasher, CheckAlloc>;

macro_rules! bad {
    ($p:expr, $k:expr, $($fmt:tt)*) => {
        return Err(($p, $k, format!($($fmt)*)))
    };
}

#[derive(Clone, Debug, PartialEq, Eq, PartialOrd, Ord)]
pub struct ME {
    pub id: u32,
    pub gen: u32,
    pub val: u64,
}

pub struct Slot<K, V> {
    pub map: Map<K, V>,
    pub model: Vec<ME>,
    pub plan: Plan,
}

#[derive(Clone, Debug, PartialEq, Eq, PartialOrd, Ord)]
struct Snap {
    id: u32,
    gen: u32,
    val: u64,
    ks: Option<u64>,
    vs: Option<u64>,
}

pub fn plan_from_header(case: &Case, prefix: &str) -> Plan {
    Plan {
        pos_rule: case.h(&format!("{prefix}pos")) as u32,
        pos_param: case.h(&format!("{prefix}pos_p")) as u32,
        tag_rule: case.h(&format!("{prefix}tag")) as u32,
        tag_param: case.h(&format!("{prefix}tag_p")) as u32,
        seed: case.h(&format!("{prefix}seed")),
    }
}

/// Iterator adaptor handed to `extend`: counts as the "extend iterator" callback class.
/// The by-reference `Extend` impls (`Extend<(&K, &V)>`, `Extend<&(K, V)>`) need `Copy` elements:
/// they are exercised on a side map of `(ArrKey, u64)` pairs under the case's hash plan. The pairs
/// go in through three routes and must give the same map: first key kept, last value wins.
fn by_ref_extend_check(plan: Plan, items: &[(u32, u64)]) -> Result<(), Bad> {
    type M = hb::HashMap<ArrKey, u64, PlanBuildHasher, CheckAlloc>;
    let pairs: Vec<(ArrKey, u64)> = items.iter().enumerate().map(|(i, (id, v))| (ArrKey { id: *id, tag: i as u32 }, *v)).collect();
    let contents = |m: &M| {
        let mut v: Vec<(u32, u32, u64)> = m.iter().map(|(k, v)| (k.id, k.tag, *v)).collect();
        v.sort_unstable();
        v
    };
    let mut by_value: M = M::with_hasher_in(PlanBuildHasher::new(plan), CheckAlloc);
    by_value.extend(pairs.iter().copied());
    let mut by_pair_ref: M = M::with_hasher_in(PlanBuildHasher::new(plan), CheckAlloc);
    by_pair_ref.extend(pairs.iter());
    let mut by_refs: M = M::with_hasher_in(PlanBuildHasher::new(plan), CheckAlloc);
    by_refs.extend(pairs.iter().map(|e| (&e.0, &e.1)));
    let mut want: Vec<(u32, u32, u64)> = Vec::new();
    for (k, v) in &pairs {
        match want.iter_mut().find(|e| e.0 == k.id) {
            Some(e) => e.2 = *v,
            None => want.push((k.id, k.tag, *v)),
        }
    }
    want.sort_unstable();
    for (name, m) in [("Extend<(K, V)>", &by_value), ("Extend<&(K, V)>", &by_pair_ref), ("Extend<(&K, &V)>", &by_refs)] {
        if contents(m) != want || m.len() != want.len() {
            bad!("C01", "extend-by-reference", "{name} of {} pairs ({} distinct keys) gives {} entries; (id, tag of the stored key, value) {:?}, expected {:?}", pairs.len(), want.len(), m.len(), &contents(m)[..contents(m).len().min(6)], &want[..want.len().min(6)]);
        }
    }
    // C08: new keys that fit into capacity()-len() must not make the by-reference impls allocate,
    // whatever the iterator's upper size bound claims (a filtered iterator claims more than it yields)
    let keep_every = 3;
    let selected: Vec<&(ArrKey, u64)> = pairs.iter().enumerate().filter(|(i, _)| i % keep_every == 0).map(|(_, e)| e).collect();
    let mut distinct: Vec<u32> = selected.iter().map(|e| e.0.id).collect();
    distinct.sort_unstable();
    distinct.dedup();
    let mut roomy: M = M::with_capacity_and_hasher_in(pairs.len().max(1), PlanBuildHasher::new(plan), CheckAlloc);
    // fill with foreign keys until the room left is the number of new keys plus one: the spare slot
    // keeps inserts of keys that are already present (repeats inside the slice) from growing the
    // table, which HashMap::insert is allowed to do at growth_left == 0 (DESIGN 11.2)
    let mut filler = 3_000_000u32;
    while roomy.capacity() - roomy.len() > distinct.len() + 1 {
        roomy.insert(ArrKey { id: filler, tag: 0 }, 0);
        filler += 1;
    }
    let room = roomy.capacity() - roomy.len();
    let st0 = alloc::stats();
    roomy.extend(pairs.iter().enumerate().filter(|(i, _)| i % keep_every == 0).map(|(_, e)| e));
    let st1 = alloc::stats();
    if room > distinct.len() && st1.n_alloc != st0.n_alloc {
        bad!("C08", "insert-within-capacity-allocated", "Extend<&(K, V)> of {} new keys (iterator upper bound {}) into a map with capacity()-len() = {room} called the allocator", distinct.len(), pairs.len());
    }
    Ok(())
}

struct FeedIter<T> {
    items: std::vec::IntoIter<T>,
    /// claimed lower bound of size_hint (exact by default)
    claim: Option<usize>,
}
impl<T> Iterator for FeedIter<T> {
    type Item = T;
    fn next(&mut self) -> Option<T> {
        world::callback(Class::IterNext);
        self.items.next()
    }
    fn size_hint(&self) -> (usize, Option<usize>) {
        match self.claim {
            Some(c) => (c, None),
            None => self.items.size_hint(),
        }
    }
}

pub struct Interp<'c, K: KeyT, V: ValT> {
    case: &'c Case,
    slots: Vec<Slot<K, V>>,
    cur: usize,
    universe: u32,
    next_gen: u32,
    next_fresh: u32,
    pub labels: u32,
    pub out: Outcome,
    lawful: bool,
    entry_prop: &'static str,
    sweep_every: usize,
    steps_since_sweep: usize,
    /// property charged for unexpected panics
    panic_prop: &'static str,
    /// max ratio (per-mille) allocation_size / bound, C13
    /// per slot: the map was never given an element or a capacity (C03: it must own no block)
    pristine: [bool; 2],
    pub c13_bound: usize,
    c13_bound_peak: usize,
    pub c13_peak_live: usize,
    /// a destructor panic was injected: leaked elements / blocks are allowed from now on
    leak_ok: bool,
    trace: bool,
    c13: bool,
    transcript: bool,
    size_cap: usize,
    pub c13_max_ratio: u64,
    pub basic_ops: u64,
}

fn keep(id: u32, salt: u64, pct: u64) -> bool {
    splitmix64(id as u64 ^ salt.wrapping_mul(0x9E37_79B9)) % 100 < pct
}

impl<'c, K, V> Interp<'c, K, V>
where
    K: KeyT + for<'a> From<&'a KeyRef>,
    V: ValT + Default,
    KeyRef: hb::Equivalent<K>,
    crate::elem::KeyLen: hb::Equivalent<K>,
{
    pub fn new(case: &'c Case) -> Self {
        let plan = plan_from_header(case, "");
        world::with(|w| {
            w.default_plan = plan;
            w.chaos.mode = case.h("chaos") as u32;
            let n = (case.h_or("tape_len", 16) as usize).clamp(1, 256);
            let ts = case.h("tape_seed");
            let small = case.h("tape_small") != 0;
            w.chaos.hash_tape = (0..n)
                .map(|i| {
                    let r = splitmix64(ts.wrapping_add(i as u64));
                    if small {
                        // a few values only: collisions in position and tag are common
                        [0u64, u64::MAX, 0x0100_0000_0000_0007, 0xFE00_0000_0000_0010][(r % 4) as usize]
                    } else {
                        r
                    }
                })
                .collect();
            w.chaos.eq_tape = (0..n).map(|i| splitmix64(ts.wrapping_mul(31).wrapping_add(i as u64)) & 1 == 1).collect();
        });
        let cap = case.h("cap") as usize;
        let map = {
            let _q = Quiet::new();
            Map::with_capacity_and_hasher_in(cap, PlanBuildHasher::new(plan), CheckAlloc)
        };
        let chaos = case.h("chaos") != 0;
        let prop = case.h("prop");
        Interp {
            case,
            slots: vec![Slot {
                map,
                model: Vec::new(),
                plan,
            }],
            cur: 0,
            universe: (case.h_or("u", 16) as u32).max(1),
            next_gen: 0,
            next_fresh: 0,
            labels: 0,
            out: Outcome::default(),
            lawful: !chaos,
            entry_prop: if prop == 14 { "C14" } else { "C01" },
            sweep_every: case.h_or("sweep", 8) as usize,
            steps_since_sweep: 0,
            panic_prop: if chaos { "C05" } else { "C02" },
            pristine: [case.h("cap") == 0, case.h("b_cap") == 0],
            c13_bound: 0,
            c13_bound_peak: 0,
            c13_peak_live: 0,
            leak_ok: false,
            trace: case.h("trace") != 0,
            c13: case.h("c13") != 0,
            transcript: case.h("transcript") != 0,
            size_cap: case.h_or("size_cap", 3000) as usize,
            c13_max_ratio: 0,
            basic_ops: 0,
        }
    }

    fn gen(&mut self) -> u32 {
        self.next_gen += 1;
        self.next_gen
    }

    fn fresh_id(&mut self) -> u32 {
        self.next_fresh += 1;
        1_000_000 + self.next_fresh
    }

    fn kid(&self, a: u64) -> u32 {
        (a % self.universe as u64) as u32
    }

    fn ensure_other(&mut self) {
        if self.slots.len() < 2 {
            let plan = plan_from_header(self.case, "b_");
            let cap = self.case.h("b_cap") as usize;
            let map = Map::with_capacity_and_hasher_in(cap, PlanBuildHasher::new(plan), CheckAlloc);
            self.slots.push(Slot {
                map,
                model: Vec::new(),
                plan,
            });
        }
    }

    pub fn dump_of(map: &Map<K, V>) -> Dump {
        conv_dump(map.verif_dump())
    }

    fn mpos(model: &[ME], id: u32) -> Option<usize> {
        model.iter().position(|e| e.id == id)
    }

    /// Sequential-map semantics of `insert` on the model.
    fn model_insert(model: &mut Vec<ME>, id: u32, gen: u32, val: u64) -> Option<u64> {
        match Self::mpos(model, id) {
            Some(i) => Some(std::mem::replace(&mut model[i].val, val)),
            None => {
                model.push(ME { id, gen, val });
                None
            }
        }
    }

    fn model_remove(model: &mut Vec<ME>, id: u32) -> Option<ME> {
        Self::mpos(model, id).map(|i| model.remove(i))
    }

    // -----------------------------------------------------------------------------------------
    // execution of one operation

    pub fn exec(&mut self, op: &Op) -> Result<(), Bad> {
        let a = op.a;
        // bounded table sizes: growing macro-operations are skipped above the case's size cap
        if self.slots[self.cur].model.len() > self.size_cap
            && matches!(op.code, ops::FILL_EXACT | ops::FILL_TO_CAPACITY | ops::REHASH_SETUP | ops::RESERVE | ops::RESERVE_TO_BOUNDARY | ops::MIRROR_TO_OTHER)
        {
            return Ok(());
        }
        match op.code {
            ops::INSERT => {
                let k = self.kid(a[0]);
                let g = self.gen();
                let s = &mut self.slots[self.cur];
                let old = s.map.insert(K::new(k, g), V::new(a[1]));
                let want = Self::model_insert(&mut s.model, k, g, a[1]);
                match (&old, want) {
                    (Some(o), Some(w)) => {
                        o.check("insert: returned old value");
                        if o.get() != w {
                            bad!("C01", "insert-old-value", "insert({k}) returned {} model {}", o.get(), w);
                        }
                        self.labels |= dump::L_OVERWRITE;
                    }
                    (None, None) => {}
                    (o, w) => bad!(
                        "C01",
                        "insert-return",
                        "insert({k}) returned {:?}, model says {:?}",
                        o.as_ref().map(|v| v.get()),
                        w
                    ),
                }
            }
            ops::TRY_INSERT => {
                let k = self.kid(a[0]);
                let g = self.gen();
                let s = &mut self.slots[self.cur];
                let present = Self::mpos(&s.model, k);
                match s.map.try_insert(K::new(k, g), V::new(a[1])) {
                    Ok(v) => {
                        v.check("try_insert: new value");
                        if present.is_some() {
                            bad!("C01", "try_insert-ok-on-present", "try_insert({k}) succeeded but key is present");
                        }
                        if v.get() != a[1] {
                            bad!("C01", "try_insert-value", "try_insert({k}) gave {} want {}", v.get(), a[1]);
                        }
                        s.model.push(ME { id: k, gen: g, val: a[1] });
                    }
                    Err(e) => {
                        let Some(i) = present else {
                            bad!("C01", "try_insert-err-on-absent", "try_insert({k}) failed but key is absent");
                        };
                        e.entry.key().check("try_insert: occupied key");
                        e.entry.get().check("try_insert: occupied value");
                        if e.entry.key().gen() != s.model[i].gen
                            || e.entry.get().get() != s.model[i].val
                            || e.value.get() != a[1]
                        {
                            bad!(
                                "C01",
                                "try_insert-occupied-contents",
                                "try_insert({k}): entry ({}, gen {}, {}) rejected {} vs model {:?}",
                                e.entry.key().id(),
                                e.entry.key().gen(),
                                e.entry.get().get(),
                                e.value.get(),
                                s.model[i]
                            );
                        }
                    }
                }
            }
            ops::GET => {
                let k = self.kid(a[0]);
                self.lookup(self.cur, k, a[1] % 5)?;
            }
            ops::GET_MUT => {
                let k = self.kid(a[0]);
                let s = &mut self.slots[self.cur];
                let present = Self::mpos(&s.model, k);
                let key = K::new(k, 0);
                let got: Option<&mut V> = if a[2] % 2 == 0 {
                    s.map.get_mut(&key)
                } else {
                    match s.map.get_key_value_mut(&key) {
                        Some((kk, vv)) => {
                            kk.check("get_key_value_mut key");
                            if let Some(i) = present {
                                if kk.gen() != s.model[i].gen {
                                    bad!("C01", "stored-key-replaced", "get_key_value_mut({k}) key gen {} model {}", kk.gen(), s.model[i].gen);
                                }
                            }
                            Some(vv)
                        }
                        None => None,
                    }
                };
                match (got, present) {
                    (Some(v), Some(i)) => {
                        v.check("get_mut value");
                        if v.get() != s.model[i].val {
                            bad!("C01", "get_mut-value", "get_mut({k}) = {} model {}", v.get(), s.model[i].val);
                        }
                        v.set(a[1]);
                        s.model[i].val = a[1];
                    }
                    (None, None) => {}
                    (g, p) => bad!("C01", "get_mut-presence", "get_mut({k}) found={} model present={}", g.is_some(), p.is_some()),
                }
            }
            ops::REMOVE => {
                let k = self.kid(a[0]);
                self.remove_key(self.cur, k, a[1] % 3)?;
            }
            ops::ENTRY => {
                let k = self.kid(a[0]);
                self.entry_op(k, a[1] % 16, a[2])?;
            }
            ops::ENTRY_REF => {
                let k = self.kid(a[0]);
                self.entry_ref_op(k, a[1] % 14, a[2])?;
            }
            ops::EXTEND => {
                let n = (a[1] % 25) as u32;
                let mut items = Vec::new();
                let mut expect = Vec::new();
                for i in 0..n {
                    let k = self.kid(a[0] + i as u64);
                    let g = self.gen();
                    items.push((K::new(k, g), V::new(a[2] + i as u64)));
                    expect.push((k, g, a[2] + i as u64));
                }
                let s = &mut self.slots[self.cur];
                s.map.extend(FeedIter { items: items.into_iter(), claim: None });
                if self.lawful && self.case.header.get("fault_step").is_none() {
                    let side: Vec<(u32, u64)> = expect.iter().map(|e| (e.0, e.2)).collect();
                    let _q = Quiet::new();
                    by_ref_extend_check(s.plan, &side)?;
                }
                for (k, g, v) in expect {
                    Self::model_insert(&mut s.model, k, g, v);
                }
            }
            ops::REBUILD => {
                let s = &mut self.slots[self.cur];
                world::with(|w| w.default_plan = s.plan);
                let old = std::mem::replace(
                    &mut s.map,
                    Map::with_hasher_in(PlanBuildHasher::new(s.plan), CheckAlloc),
                );
                s.map = old.into_iter().collect();
                let sample: Vec<(u32, u64)> = s.model.iter().take(3).map(|e| (e.id, e.val)).collect();
                Self::from_array_check(&sample)?;
            }
            ops::CLEAR => {
                let s = &mut self.slots[self.cur];
                let before = s.map.allocation_size();
                s.map.clear();
                s.model.clear();
                if s.map.allocation_size() != before {
                    bad!("C08", "clear-changed-allocation", "clear: allocation_size {} -> {}", before, s.map.allocation_size());
                }
            }
            ops::RESERVE => {
                let n = (a[0] % 97) as usize;
                let s = &mut self.slots[self.cur];
                s.map.reserve(n);
                if s.map.capacity() < s.map.len() + n {
                    bad!("C08", "reserve-capacity", "after reserve({n}): capacity {} < len {} + {n}", s.map.capacity(), s.map.len());
                }
            }
            ops::TRY_RESERVE => {
                let n = (a[0] % 97) as usize;
                let s = &mut self.slots[self.cur];
                match s.map.try_reserve(n) {
                    Ok(()) => {
                        if s.map.capacity() < s.map.len() + n {
                            bad!("C12", "try_reserve-capacity", "after try_reserve({n}): capacity {} < len {} + {n}", s.map.capacity(), s.map.len());
                        }
                    }
                    Err(e) => bad!("C12", "try_reserve-spurious-error", "try_reserve({n}) on a granting allocator: {e:?}"),
                }
            }
            ops::SHRINK_TO_FIT | ops::SHRINK_TO => {
                let s = &mut self.slots[self.cur];
                let prev_cap = s.map.capacity();
                let prev_size = s.map.allocation_size();
                let len = s.map.len();
                let m = if op.code == ops::SHRINK_TO {
                    frac_to(a[0], 2 * prev_cap + 2)
                } else {
                    0
                };
                if op.code == ops::SHRINK_TO {
                    s.map.shrink_to(m);
                } else {
                    s.map.shrink_to_fit();
                }
                let cap = s.map.capacity();
                let size = s.map.allocation_size();
                if size > prev_size {
                    bad!("C08", "shrink-enlarged", "shrink_to({m}): allocation {} -> {}", prev_size, size);
                }
                if cap < len.max(m.min(prev_cap)) {
                    bad!("C08", "shrink-capacity", "shrink_to({m}): capacity {cap} < max(len {len}, min(m, prev {prev_cap}))");
                }
                if len == 0 && m == 0 && size != 0 {
                    bad!("C08", "shrink-empty-keeps-block", "shrink_to(0) of an empty map left {size} bytes");
                }
                if !(len == 0 && m == 0) {
                    let want = len.max(m);
                    let fresh: hb::HashMap<K, V, PlanBuildHasher, CheckAlloc> =
                        Map::with_capacity_and_hasher_in(want, PlanBuildHasher::new(s.plan), CheckAlloc);
                    let fs = fresh.allocation_size();
                    drop(fresh);
                    if size > fs {
                        bad!("C08", "shrink-not-tight", "shrink_to({m}) len {len}: allocation {size} > fresh with_capacity({want}) = {fs}");
                    }
                }
            }
            ops::RETAIN => {
                let (salt, pct, mutate) = (a[0], a[1] % 101, a[2] % 2 == 1);
                let s = &mut self.slots[self.cur];
                let mut seen: Vec<u32> = Vec::new();
                s.map.retain(|k, v| {
                    world::callback(Class::Closure);
                    k.check("retain key");
                    v.check("retain value");
                    seen.push(k.id());
                    if mutate {
                        v.set(v.get().wrapping_add(1));
                    }
                    keep(k.id(), salt, pct)
                });
                seen.sort_unstable();
                let mut want: Vec<u32> = s.model.iter().map(|e| e.id).collect();
                want.sort_unstable();
                if seen != want {
                    bad!("C10", "retain-predicate-calls", "retain called its predicate on {:?}, contents were {:?}", seen, want);
                }
                s.model.retain(|e| keep(e.id, salt, pct));
                if mutate {
                    for e in s.model.iter_mut() {
                        e.val = e.val.wrapping_add(1);
                    }
                }
            }
            ops::FILL_TO_CAPACITY => {
                // C08: in any state, capacity()-len() not-yet-present keys go in without any
                // allocator call (capacity() itself may rise when tombstones are reused).
                let room = {
                    let s = &self.slots[self.cur];
                    (s.map.capacity() - s.map.len()).min(2048)
                };
                let st0 = alloc::stats();
                for j in 0..room {
                    let id = self.fresh_id();
                    let g = self.gen();
                    let s = &mut self.slots[self.cur];
                    let r = s.map.insert(K::new(id, g), V::new(id as u64));
                    if r.is_some() {
                        bad!("C01", "insert-return", "insert of fresh key {id} returned Some");
                    }
                    s.model.push(ME { id, gen: g, val: id as u64 });
                    let st = alloc::stats();
                    if st.n_alloc != st0.n_alloc || st.n_dealloc != st0.n_dealloc {
                        bad!("C08", "insert-within-capacity-allocated", "insert {} of {room} promised by capacity()-len() called the allocator", j + 1);
                    }
                }
            }
            ops::FILL_EXACT => {
                for _ in 0..(a[0] % 41) {
                    let id = self.fresh_id();
                    let g = self.gen();
                    let s = &mut self.slots[self.cur];
                    if s.map.insert(K::new(id, g), V::new(id as u64)).is_some() {
                        bad!("C01", "insert-return", "insert of fresh key {id} returned Some");
                    }
                    s.model.push(ME { id, gen: g, val: id as u64 });
                }
            }
            ops::REMOVE_RUN => {
                let s = &self.slots[self.cur];
                let d = Self::dump_of(&s.map);
                if !d.is_singleton {
                    let b = d.buckets();
                    let start = frac_index(a[0], b);
                    let mut ids = Vec::new();
                    for j in 0..b {
                        if ids.len() >= (a[1] % 41) as usize {
                            break;
                        }
                        let i = (start + j) & d.bucket_mask;
                        if let Some((k, _)) = s.map.verif_bucket(i) {
                            ids.push(k.id());
                        }
                    }
                    for id in ids {
                        self.remove_key(self.cur, id, 0)?;
                    }
                }
            }
            ops::REMOVE_ALL_BUT => {
                let n = (a[0] % 13) as usize;
                while self.slots[self.cur].model.len() > n {
                    let id = self.slots[self.cur].model[0].id;
                    self.remove_key(self.cur, id, 0)?;
                }
            }
            ops::CHURN => {
                for _ in 0..(a[0] % 41) {
                    let id = self.fresh_id();
                    let g = self.gen();
                    let s = &mut self.slots[self.cur];
                    if s.map.insert(K::new(id, g), V::new(id as u64)).is_some() {
                        bad!("C01", "insert-return", "insert of fresh key {id} returned Some");
                    }
                    s.model.push(ME { id, gen: g, val: id as u64 });
                    let oldest = s.model[0].id;
                    self.remove_key(self.cur, oldest, 0)?;
                }
            }
            ops::RESERVE_TO_BOUNDARY => {
                let k = 2 + (a[0] % 8) as u32;
                let buckets = 1usize << k;
                let cap = if buckets < 8 { buckets - 1 } else { buckets / 8 * 7 };
                let target = (cap + (a[1] % 3) as usize).saturating_sub(1);
                let s = &mut self.slots[self.cur];
                let add = target.saturating_sub(s.map.len());
                s.map.reserve(add);
                if s.map.capacity() < s.map.len() + add {
                    bad!("C08", "reserve-capacity", "after reserve({add}): capacity {} < len {} + {add}", s.map.capacity(), s.map.len());
                }
            }
            ops::INSERT_UNIQUE_UNCHECKED => {
                let k = self.kid(a[0]);
                let g = self.gen();
                let s = &mut self.slots[self.cur];
                if Self::mpos(&s.model, k).is_none() {
                    // precondition holds: the key is not in the map
                    let (kk, vv) = unsafe { s.map.insert_unique_unchecked(K::new(k, g), V::new(a[1])) };
                    kk.check("insert_unique_unchecked key");
                    vv.check("insert_unique_unchecked value");
                    if kk.id() != k || vv.get() != a[1] {
                        bad!("C01", "insert_unique_unchecked-refs", "returned ({}, {})", kk.id(), vv.get());
                    }
                    s.model.push(ME { id: k, gen: g, val: a[1] });
                }
            }
            ops::REMOVE_NTH => {
                let s = &self.slots[self.cur];
                if !s.model.is_empty() {
                    let id = s.model[frac_index(a[0], s.model.len())].id;
                    self.remove_key(self.cur, id, 0)?;
                }
            }
            ops::GET_ABSENT => {
                for _ in 0..=(a[0] % 5) {
                    let id = self.fresh_id();
                    let s = &self.slots[self.cur];
                    if s.map.get(&KeyRef(id)).is_some() || s.map.contains_key(&K::new(id, 0)) {
                        bad!("C01", "absent-key-found", "never-inserted key {id} was found");
                    }
                }
            }
            ops::DROP_RECREATE => {
                let cap = (a[0] % 41) as usize;
                let s = &mut self.slots[self.cur];
                let old = std::mem::replace(
                    &mut s.map,
                    Map::with_capacity_and_hasher_in(cap, PlanBuildHasher::new(s.plan), CheckAlloc),
                );
                s.model.clear();
                drop(old);
                if s.map.capacity() < cap {
                    bad!("C08", "with_capacity-capacity", "with_capacity({cap}) gave capacity {}", s.map.capacity());
                }
            }
            ops::REHASH_SETUP => {
                // fill to capacity, then thin out to just below half the load limit: the next
                // insertion of an absent key finds growth_left == 0 and (if the removals left
                // tombstones) rehashes in place
                self.exec(&Op::new(ops::FILL_TO_CAPACITY, &[]))?;
                let d = Self::dump_of(&self.slots[self.cur].map);
                if !d.is_singleton {
                    let keep = (d.max_load() / 2).saturating_sub(1 + (a[0] % 7) as usize);
                    while self.slots[self.cur].model.len() > keep {
                        let id = self.slots[self.cur].model[0].id;
                        self.remove_key(self.cur, id, 0)?;
                    }
                }
            }
            ops::MIRROR_TO_OTHER => {
                // give the other map the same pairs through its own history: remove what it holds
                // (leaving tombstones), then insert this map's pairs in another order
                self.ensure_other();
                let other = self.cur ^ 1;
                let pairs: Vec<(u32, u64)> = self.slots[self.cur].model.iter().map(|e| (e.id, e.val)).collect();
                while let Some(id) = self.slots[other].model.first().map(|e| e.id) {
                    self.remove_key(other, id, 0)?;
                }
                let order: Vec<usize> = match a[0] % 3 {
                    0 => (0..pairs.len()).rev().collect(),
                    1 => (0..pairs.len()).collect(),
                    _ => (0..pairs.len()).map(|i| (i * 7 + 3) % pairs.len().max(1)).collect::<std::collections::BTreeSet<_>>().into_iter().rev().collect(),
                };
                let mut done = vec![false; pairs.len()];
                for i in order.into_iter().chain(0..pairs.len()) {
                    if done[i] {
                        continue;
                    }
                    done[i] = true;
                    let g = self.gen();
                    let s = &mut self.slots[other];
                    s.map.insert(K::new(pairs[i].0, g), V::new(pairs[i].1));
                    Self::model_insert(&mut s.model, pairs[i].0, g, pairs[i].1);
                }
                self.eq_op()?;
            }
            ops::CAPPED_CHURN => {
                // C13: `rounds` insertions with the live count capped at `live_cap`: when the cap is
                // reached one element is removed first, chosen by the removal pattern
                let cap_n = (self.case.h_or("live_cap", 8) as usize).max(1);
                let pattern = a[1] % 6;
                for r in 0..(a[0] % 65) {
                    if pattern == 5 && self.slots[self.cur].model.len() >= cap_n {
                        // fill to the cap, then remove everything one by one (the table is empty when its
                        // spare room runs out)
                        while let Some(id) = self.slots[self.cur].model.first().map(|e| e.id) {
                            self.remove_key(self.cur, id, (r % 3) as u64)?;
                            self.basic_ops += 1;
                        }
                    }
                    while self.slots[self.cur].model.len() >= cap_n {
                        let len = self.slots[self.cur].model.len();
                        let idx = match pattern {
                            0 => 0,                                   // FIFO
                            1 => len - 1,                             // LIFO
                            2 => frac_index(splitmix64(a[2] ^ r) & 0xffff, len), // random
                            3 => {
                                // clustered: the element stored in the first full bucket at/after a position
                                let s = &self.slots[self.cur];
                                let d = Self::dump_of(&s.map);
                                let start = frac_index(a[2], d.buckets());
                                let mut found = 0;
                                for j in 0..d.buckets() {
                                    if let Some((k, _)) = s.map.verif_bucket((start + j) & d.bucket_mask) {
                                        found = Self::mpos(&s.model, k.id()).unwrap_or(0);
                                        break;
                                    }
                                }
                                found
                            }
                            _ => (r as usize) % len,                  // alternate
                        };
                        let id = self.slots[self.cur].model[idx].id;
                        self.remove_key(self.cur, id, (r % 3) as u64)?;
                        self.basic_ops += 1;
                        // a lookup of an absent key after every removal
                        let absent = self.fresh_id();
                        if self.slots[self.cur].map.get(&KeyRef(absent)).is_some() {
                            bad!("C01", "absent-key-found", "never-inserted key {absent} was found");
                        }
                    }
                    let id = if a[3] % 2 == 0 { self.fresh_id() } else { self.kid(a[2].wrapping_add(r)) };
                    let g = self.gen();
                    let s = &mut self.slots[self.cur];
                    // "slots freed by removals are ... reclaimed in place instead of driving growth": an insert
                    // that finds the table at most half full of live elements must not enlarge it
                    let grow_probe = if self.c13 {
                        let d = Self::dump_of(&s.map);
                        (!d.is_singleton).then(|| (d.buckets(), d.items, s.map.allocation_size()))
                    } else {
                        None
                    };
                    if r % 2 == 0 {
                        let old = s.map.insert(K::new(id, g), V::new(id as u64));
                        let want = Self::model_insert(&mut s.model, id, g, id as u64);
                        if old.map(|v| v.get()) != want {
                            bad!("C01", "insert-return", "insert({id}) disagrees with the model");
                        }
                    } else {
                        let present = Self::mpos(&s.model, id).is_some();
                        let r = s.map.entry(K::new(id, g)).or_insert(V::new(id as u64));
                        r.check("entry or_insert");
                        if !present {
                            s.model.push(ME { id, gen: g, val: id as u64 });
                        }
                    }
                    if let Some((buckets, items, size)) = grow_probe {
                        let full = if buckets < 8 { buckets - 1 } else { buckets / 8 * 7 };
                        let now = self.slots[self.cur].map.allocation_size();
                        if items + 1 <= full / 2 && now > size {
                            bad!("C13", "growth-driven-by-freed-slots", "insert into a table of {buckets} buckets holding {items} live elements (load limit {full}) enlarged the allocation {size} -> {now}");
                        }
                    }
                    self.basic_ops += 1;
                    // the live count may fall again inside this macro-operation (pattern 5)
                    self.c13_track();
                }
            }
            ops::ITER => self.iter_op(a[0] % 9, a[1], a[2] % 5)?,
            ops::DRAIN => self.drain_op(a[0], a[1] % 2)?,
            ops::EXTRACT_IF => self.extract_if_op(a[0], a[1] % 101, a[2], a[3] % 2 == 1)?,
            ops::INTO_ITER => self.into_iter_op(a[0] % 3, a[1])?,
            ops::SWAP => {
                self.ensure_other();
                self.cur ^= 1;
            }
            ops::CLONE_TO_OTHER => self.clone_op(false)?,
            ops::CLONE_FROM_OTHER => self.clone_op(true)?,
            ops::EQ_CHECK => self.eq_op()?,
            ops::GET_MANY_MUT => self.get_many_op(&a)?,
            ops::RAW_ENTRY => {
                let k = self.kid(a[0]);
                self.raw_entry_op(k, a[1] % 3, a[2] % 12, a[3])?;
            }
            ops::RAW_ENTRY_RO => {
                let k = self.kid(a[0]);
                self.raw_entry_ro_op(k, a[1] % 3)?;
            }
            ops::RUSTC_ENTRY => {
                let k = self.kid(a[0]);
                self.rustc_entry_op(k, a[1] % 10, a[2])?;
            }
            _ => {}
        }
        Ok(())
    }

    /// One lookup of `k` through the chosen API variant, compared with the model.
    fn lookup(&self, si: usize, k: u32, variant: u64) -> Result<(), Bad> {
        let s = &self.slots[si];
        let want = Self::mpos(&s.model, k).map(|i| &s.model[i]);
        let (found, gen): (Option<u64>, Option<u32>) = match variant {
            0 => {
                let key = K::new(k, 0);
                let r = s.map.get(&key);
                if let Some(v) = r {
                    v.check("get value");
                }
                (r.map(|v| v.get()), None)
            }
            1 => {
                let r = s.map.get(&KeyRef(k));
                if let Some(v) = r {
                    v.check("get(KeyRef) value");
                }
                (r.map(|v| v.get()), None)
            }
            2 => {
                let key = K::new(k, 0);
                let c = s.map.contains_key(&key);
                let c2 = s.map.contains_key(&KeyRef(k));
                if c != c2 {
                    bad!("C01", "equivalent-lookup-differs", "contains_key({k}) via Key = {c}, via KeyRef = {c2}");
                }
                // an unsized equivalent form (all such keys start at one address)
                if let (true, Some(kl)) = (self.lawful, crate::elem::KeyLen::of(k)) {
                    let c3 = s.map.get(kl).is_some();
                    if c3 != c {
                        bad!("C01", "equivalent-lookup-differs", "key {k}: contains_key via Key = {c}, get via the unsized form = {c3}");
                    }
                }
                (if c { want.map(|w| w.val).or(Some(0)) } else { None }, None)
            }
            3 => match s.map.get_key_value(&KeyRef(k)) {
                Some((kk, vv)) => {
                    kk.check("get_key_value key");
                    vv.check("get_key_value value");
                    if kk.id() != k {
                        bad!("C01", "lookup-wrong-entry", "get_key_value({k}) returned key {}", kk.id());
                    }
                    (Some(vv.get()), Some(kk.gen()))
                }
                None => (None, None),
            },
            _ => {
                if want.is_some() && self.lawful {
                    let key = K::new(k, 0);
                    let v = &s.map[&key];
                    v.check("index value");
                    (Some(v.get()), None)
                } else if !self.lawful {
                    // under inconsistent answers Index may panic ("key not found"), nothing worse
                    let key = K::new(k, 0);
                    let map = &s.map;
                    let r = catch_unwind(AssertUnwindSafe(|| {
                        let v = &map[&key];
                        v.check("index value");
                        v.get()
                    }));
                    match r {
                        Ok(v) => (Some(v), None),
                        Err(p) => {
                            if p.downcast_ref::<Injected>().is_some() {
                                std::panic::resume_unwind(p);
                            }
                            drop(p);
                            world::clear_panic_messages();
                            (None, None)
                        }
                    }
                } else {
                    (s.map.get(&KeyRef(k)).map(|v| v.get()), None)
                }
            }
        };
        match (found, want) {
            (Some(f), Some(w)) => {
                if f != w.val {
                    bad!("C01", "lookup-value", "lookup({k}) variant {variant} = {f}, model {}", w.val);
                }
                if let Some(g) = gen {
                    if g != w.gen {
                        bad!("C01", "stored-key-replaced", "lookup({k}): stored key gen {g}, model {}", w.gen);
                    }
                }
            }
            (None, None) => {}
            (f, w) => bad!(
                "C01",
                "lookup-presence",
                "lookup({k}) variant {variant}: found {:?}, model {:?}",
                f,
                w
            ),
        }
        Ok(())
    }

    fn remove_key(&mut self, si: usize, k: u32, variant: u64) -> Result<(), Bad> {
        let s = &mut self.slots[si];
        let want = Self::model_remove(&mut s.model, k);
        let (got, gen): (Option<V>, Option<u32>) = match variant {
            0 => (s.map.remove(&K::new(k, 0)), None),
            1 => match s.map.remove_entry(&K::new(k, 0)) {
                Some((kk, vv)) => {
                    kk.check("remove_entry key");
                    let g = kk.gen();
                    if kk.id() != k {
                        bad!("C01", "remove-wrong-entry", "remove_entry({k}) returned key {}", kk.id());
                    }
                    (Some(vv), Some(g))
                }
                None => (None, None),
            },
            _ => (s.map.remove(&KeyRef(k)), None),
        };
        match (&got, &want) {
            (Some(v), Some(w)) => {
                v.check("remove value");
                if v.get() != w.val {
                    bad!("C01", "remove-value", "remove({k}) = {}, model {}", v.get(), w.val);
                }
                if let Some(g) = gen {
                    if g != w.gen {
                        bad!("C01", "stored-key-replaced", "remove_entry({k}): key gen {g}, model {}", w.gen);
                    }
                }
                self.labels |= dump::L_REMOVE_PRESENT;
            }
            (None, None) => {}
            (g, w) => bad!(
                "C01",
                "remove-presence",
                "remove({k}) returned {:?}, model {:?}",
                g.as_ref().map(|v| v.get()),
                w
            ),
        }
        Ok(())
    }

    // -----------------------------------------------------------------------------------------
    // entry / entry_ref

    fn entry_op(&mut self, k: u32, act: u64, v: u64) -> Result<(), Bad> {
        use hb::hash_map::Entry;
        let g = self.gen();
        let p = self.entry_prop;
        let s = &mut self.slots[self.cur];
        let pre = Self::dump_of(&s.map);
        if pre.growth_left == 0 && !pre.is_singleton {
            self.labels |= dump::L_ENTRY_AT_FULL; // entry created at growth_left == 0
        }
        let present = Self::mpos(&s.model, k);
        let e = s.map.entry(K::new(k, g));
        match (&e, present) {
            (Entry::Occupied(o), Some(i)) => {
                o.key().check("entry: occupied key");
                if o.key().gen() != s.model[i].gen || o.get().get() != s.model[i].val {
                    bad!(p, "entry-occupied-contents", "entry({k}): ({}, gen {}, {}) vs model {:?}", o.key().id(), o.key().gen(), o.get().get(), s.model[i]);
                }
            }
            (Entry::Vacant(vac), None) => {
                if vac.key().id() != k || vac.key().gen() != g {
                    bad!(p, "entry-vacant-key", "vacant entry key ({}, gen {})", vac.key().id(), vac.key().gen());
                }
            }
            (Entry::Occupied(_), None) => bad!(p, "entry-discriminant", "entry({k}) is Occupied, key absent"),
            (Entry::Vacant(_), Some(_)) => bad!(p, "entry-discriminant", "entry({k}) is Vacant, key present"),
        }
        let model = &mut s.model;
        macro_rules! upsert_ref {
            ($r:expr, $newval:expr) => {{
                let r: &mut V = $r;
                r.check("entry: returned reference");
                let want = match present {
                    Some(i) => model[i].val,
                    None => {
                        model.push(ME { id: k, gen: g, val: $newval });
                        $newval
                    }
                };
                if r.get() != want {
                    bad!(p, "entry-or_insert-value", "entry({k}) act {act}: reference holds {}, want {want}", r.get());
                }
            }};
        }
        match act {
            0 => upsert_ref!(e.or_insert(V::new(v)), v),
            1 => upsert_ref!(
                e.or_insert_with(|| {
                    world::callback(Class::Closure);
                    V::new(v)
                }),
                v
            ),
            2 => upsert_ref!(
                e.or_insert_with_key(|kk| {
                    world::callback(Class::Closure);
                    V::new(v ^ kk.id() as u64)
                }),
                v ^ k as u64
            ),
            3 => upsert_ref!(e.or_default(), 0),
            4 => {
                let r = e
                    .and_modify(|x| {
                        world::callback(Class::Closure);
                        x.set(v)
                    })
                    .or_insert(V::new(v.wrapping_add(1)));
                r.check("entry: and_modify/or_insert reference");
                let want = match present {
                    Some(i) => {
                        model[i].val = v;
                        v
                    }
                    None => {
                        model.push(ME { id: k, gen: g, val: v.wrapping_add(1) });
                        v.wrapping_add(1)
                    }
                };
                if r.get() != want {
                    bad!(p, "entry-and_modify", "entry({k}).and_modify.or_insert: {} want {want}", r.get());
                }
            }
            5 => {
                let o = e.insert(V::new(v));
                o.key().check("Entry::insert key");
                let want_gen = match present {
                    Some(i) => {
                        model[i].val = v;
                        model[i].gen
                    }
                    None => {
                        model.push(ME { id: k, gen: g, val: v });
                        g
                    }
                };
                if o.get().get() != v || o.key().gen() != want_gen {
                    bad!(p, "entry-insert", "Entry::insert({k}): ({}, gen {}) want ({v}, gen {want_gen})", o.get().get(), o.key().gen());
                }

                if v % 3 == 0 {
                    // the entry just returned, emptied through replace_entry_with(None) and re-filled through
                    // the Vacant entry that hands back: same key object, new value
                    match o.replace_entry_with(|_, _| {
                        world::callback(Class::Closure);
                        None
                    }) {
                        hb::hash_map::Entry::Vacant(vac) => {
                            if vac.key().gen() != want_gen {
                                bad!(p, "entry-replace_entry_with-key", "vacant key gen {} want stored gen {want_gen}", vac.key().gen());
                            }
                            let r = vac.insert(V::new(v ^ 1));
                            r.check("insert through the Vacant entry returned by replace_entry_with");
                        }
                        hb::hash_map::Entry::Occupied(_) => bad!(p, "entry-replace_entry_with", "replace_entry_with(None) returned Occupied"),
                    }
                    if let Some(i) = model.iter().position(|e| e.id == k) {
                        model[i].val = v ^ 1;
                    }
                }
            }
            6 | 7 => {
                let some = act == 6;
                let mut called = 0;
                let e2 = e.and_replace_entry_with(|kk, vv| {
                    world::callback(Class::Closure);
                    called += 1;
                    kk.check("and_replace_entry_with key");
                    vv.check("and_replace_entry_with value");
                    if some {
                        Some(V::new(v))
                    } else {
                        None
                    }
                });
                let occ = matches!(e2, Entry::Occupied(_));
                drop(e2);
                match present {
                    Some(i) => {
                        if called != 1 {
                            bad!(p, "entry-and_replace-calls", "closure called {called} times on an occupied entry");
                        }
                        if some {
                            model[i].val = v;
                        } else {
                            model.remove(i);
                        }
                        if occ != some {
                            bad!(p, "entry-and_replace-result", "and_replace_entry_with returned occupied={occ}, want {some}");
                        }
                    }
                    None => {
                        if called != 0 || occ {
                            bad!(p, "entry-and_replace-vacant", "vacant entry: closure called {called}, occupied={occ}");
                        }
                    }
                }
            }
            _ => match e {
                Entry::Occupied(mut o) => {
                    let i = present.unwrap();
                    match act {
                        8 => {
                            o.get().check("occupied get");
                        }
                        9 => {
                            o.get_mut().set(v);
                            model[i].val = v;
                        }
                        10 => {
                            let r = o.into_mut();
                            r.check("occupied into_mut");
                            r.set(v);
                            model[i].val = v;
                        }
                        11 => {
                            let old = o.insert(V::new(v));
                            old.check("occupied insert old");
                            if old.get() != model[i].val {
                                bad!(p, "entry-occupied-insert", "OccupiedEntry::insert returned {} model {}", old.get(), model[i].val);
                            }
                            model[i].val = v;
                        }
                        12 => {
                            let old = o.remove();
                            old.check("occupied remove");
                            if old.get() != model[i].val {
                                bad!(p, "entry-occupied-remove", "OccupiedEntry::remove returned {} model {}", old.get(), model[i].val);
                            }
                            model.remove(i);
                        }
                        13 => {
                            let (kk, vv) = o.remove_entry();
                            kk.check("occupied remove_entry key");
                            vv.check("occupied remove_entry value");
                            if kk.gen() != model[i].gen || vv.get() != model[i].val {
                                bad!(p, "entry-occupied-remove_entry", "remove_entry returned (gen {}, {}) model {:?}", kk.gen(), vv.get(), model[i]);
                            }
                            model.remove(i);
                        }
                        14 => {
                            let e2 = o.replace_entry_with(|_, old| {
                                world::callback(Class::Closure);
                                Some(V::new(old.get().wrapping_add(v)))
                            });
                            model[i].val = model[i].val.wrapping_add(v);
                            if !matches!(e2, Entry::Occupied(_)) {
                                bad!(p, "entry-replace_entry_with", "replace_entry_with(Some) returned Vacant");
                            }
                        }
                        _ => {
                            let e2 = o.replace_entry_with(|_, _| {
                                world::callback(Class::Closure);
                                None
                            });
                            let old = model.remove(i);
                            match e2 {
                                Entry::Vacant(vac) => {
                                    // the vacant entry carries the originally stored key
                                    if vac.key().gen() != old.gen {
                                        bad!(p, "entry-replace_entry_with-key", "vacant key gen {} want stored gen {}", vac.key().gen(), old.gen);
                                    }
                                    if v % 2 == 0 {
                                        let r = vac.insert(V::new(v));
                                        r.check("reinsert through returned vacant entry");
                                        model.push(ME { id: k, gen: old.gen, val: v });
                                    }
                                }
                                Entry::Occupied(_) => bad!(p, "entry-replace_entry_with", "replace_entry_with(None) returned Occupied"),
                            }
                        }
                    }
                }
                Entry::Vacant(vac) => match act {
                    8 | 11 => {
                        // dropped unused: contents and len unchanged (checked by the step monitor)
                        drop(vac);
                    }
                    12 => {
                        let kk = vac.into_key();
                        if kk.id() != k || kk.gen() != g {
                            bad!(p, "entry-vacant-into_key", "into_key gave ({}, gen {})", kk.id(), kk.gen());
                        }
                    }
                    10 => {
                        let o = vac.insert_entry(V::new(v));
                        if o.get().get() != v || o.key().gen() != g {
                            bad!(p, "entry-vacant-insert_entry", "insert_entry gave ({}, gen {})", o.get().get(), o.key().gen());
                        }
                        model.push(ME { id: k, gen: g, val: v });
                    }
                    _ => {
                        let r = vac.insert(V::new(v));
                        r.check("vacant insert");
                        if r.get() != v {
                            bad!(p, "entry-vacant-insert", "VacantEntry::insert reference holds {}", r.get());
                        }
                        model.push(ME { id: k, gen: g, val: v });
                    }
                },
            },
        }
        Ok(())
    }

    fn entry_ref_op(&mut self, k: u32, act: u64, v: u64) -> Result<(), Bad> {
        use hb::hash_map::EntryRef;
        let g = self.gen();
        PENDING_GEN.with(|p| p.set(g));
        let p = self.entry_prop;
        let s = &mut self.slots[self.cur];
        let pre = Self::dump_of(&s.map);
        if pre.growth_left == 0 && !pre.is_singleton {
            self.labels |= dump::L_ENTRY_AT_FULL;
        }
        let present = Self::mpos(&s.model, k);
        let kr = KeyRef(k);
        let e = s.map.entry_ref(&kr);
        match (&e, present) {
            (EntryRef::Occupied(o), Some(i)) => {
                o.key().check("entry_ref: occupied key");
                if o.key().gen() != s.model[i].gen || o.get().get() != s.model[i].val {
                    bad!(p, "entry_ref-occupied-contents", "entry_ref({k}): (gen {}, {}) vs model {:?}", o.key().gen(), o.get().get(), s.model[i]);
                }
            }
            (EntryRef::Vacant(vac), None) => {
                if vac.key().0 != k {
                    bad!(p, "entry_ref-vacant-key", "vacant key {}", vac.key().0);
                }
            }
            (EntryRef::Occupied(_), None) => bad!(p, "entry-discriminant", "entry_ref({k}) is Occupied, key absent"),
            (EntryRef::Vacant(_), Some(_)) => bad!(p, "entry-discriminant", "entry_ref({k}) is Vacant, key present"),
        }
        let model = &mut s.model;
        macro_rules! upsert_ref {
            ($r:expr, $newval:expr) => {{
                let r: &mut V = $r;
                r.check("entry_ref: returned reference");
                let want = match present {
                    Some(i) => model[i].val,
                    None => {
                        model.push(ME { id: k, gen: g, val: $newval });
                        $newval
                    }
                };
                if r.get() != want {
                    bad!(p, "entry_ref-or_insert-value", "entry_ref({k}) act {act}: reference holds {}, want {want}", r.get());
                }
            }};
        }
        match act {
            0 => upsert_ref!(e.or_insert(V::new(v)), v),
            1 => upsert_ref!(
                e.or_insert_with(|| {
                    world::callback(Class::Closure);
                    V::new(v)
                }),
                v
            ),
            2 => upsert_ref!(
                e.or_insert_with(|| {
                    world::callback(Class::Closure);
                    V::new(v ^ k as u64)
                }),
                v ^ k as u64
            ),
            3 => upsert_ref!(e.or_default(), 0),
            4 => {
                let r = e
                    .and_modify(|x| {
                        world::callback(Class::Closure);
                        x.set(v)
                    })
                    .or_insert(V::new(v.wrapping_add(1)));
                let want = match present {
                    Some(i) => {
                        model[i].val = v;
                        v
                    }
                    None => {
                        model.push(ME { id: k, gen: g, val: v.wrapping_add(1) });
                        v.wrapping_add(1)
                    }
                };
                if r.get() != want {
                    bad!(p, "entry_ref-and_modify", "entry_ref({k}).and_modify.or_insert: {} want {want}", r.get());
                }
            }
            5 => {
                let o = e.insert(V::new(v));
                let want_gen = match present {
                    Some(i) => {
                        model[i].val = v;
                        model[i].gen
                    }
                    None => {
                        model.push(ME { id: k, gen: g, val: v });
                        g
                    }
                };
                if o.get().get() != v || o.key().gen() != want_gen {
                    bad!(p, "entry_ref-insert", "EntryRef::insert({k}): ({}, gen {}) want ({v}, gen {want_gen})", o.get().get(), o.key().gen());
                }

                if v % 3 == 0 {
                    // the entry just returned, emptied through replace_entry_with(None) and re-filled through
                    // the Vacant entry that hands back: same key object, new value
                    match o.replace_entry_with(|_, _| {
                        world::callback(Class::Closure);
                        None
                    }) {
                        hb::hash_map::Entry::Vacant(vac) => {
                            if vac.key().gen() != want_gen {
                                bad!(p, "entry-replace_entry_with-key", "vacant key gen {} want stored gen {want_gen}", vac.key().gen());
                            }
                            let r = vac.insert(V::new(v ^ 1));
                            r.check("insert through the Vacant entry returned by replace_entry_with");
                        }
                        hb::hash_map::Entry::Occupied(_) => bad!(p, "entry-replace_entry_with", "replace_entry_with(None) returned Occupied"),
                    }
                    if let Some(i) = model.iter().position(|e| e.id == k) {
                        model[i].val = v ^ 1;
                    }
                }
            }
            _ => match e {
                EntryRef::Occupied(mut o) => {
                    let i = present.unwrap();
                    match act {
                        6 => {
                            o.get_mut().set(v);
                            model[i].val = v;
                        }
                        7 => {
                            let old = o.insert(V::new(v));
                            if old.get() != model[i].val {
                                bad!(p, "entry_ref-occupied-insert", "insert returned {} model {}", old.get(), model[i].val);
                            }
                            model[i].val = v;
                        }
                        8 => {
                            let old = o.remove();
                            if old.get() != model[i].val {
                                bad!(p, "entry_ref-occupied-remove", "remove returned {} model {}", old.get(), model[i].val);
                            }
                            model.remove(i);
                        }
                        9 => {
                            let (kk, vv) = o.remove_entry();
                            if kk.gen() != model[i].gen || vv.get() != model[i].val {
                                bad!(p, "entry_ref-occupied-remove_entry", "remove_entry returned (gen {}, {}) model {:?}", kk.gen(), vv.get(), model[i]);
                            }
                            model.remove(i);
                        }
                        10 => {
                            let r = o.into_mut();
                            r.set(v);
                            model[i].val = v;
                        }
                        _ => {}
                    }
                }
                EntryRef::Vacant(vac) => match act {
                    6 | 8 => drop(vac),
                    7 | 9 => {
                        let o = vac.insert_entry(V::new(v));
                        if o.get().get() != v || o.key().gen() != g || o.key().id() != k {
                            bad!(p, "entry_ref-vacant-insert_entry", "insert_entry gave ({}, gen {}, {})", o.key().id(), o.key().gen(), o.get().get());
                        }
                        model.push(ME { id: k, gen: g, val: v });
                    }
                    _ => {
                        let r = vac.insert(V::new(v));
                        if r.get() != v {
                            bad!(p, "entry_ref-vacant-insert", "insert reference holds {}", r.get());
                        }
                        model.push(ME { id: k, gen: g, val: v });
                    }
                },
            },
        }
        Ok(())
    }


    // -----------------------------------------------------------------------------------------
    // monitors after every step

    fn contents_of(map: &Map<K, V>, what: &str) -> Vec<Snap> {
        let _q = Quiet::new();
        let mut v: Vec<Snap> = map
            .iter()
            .map(|(k, val)| {
                k.check(what);
                val.check(what);
                Snap {
                    id: k.id(),
                    gen: k.gen(),
                    val: val.get(),
                    ks: k.serial(),
                    vs: val.serial(),
                }
            })
            .collect();
        v.sort();
        v
    }

    /// V1-V5, contents vs model, capacity and allocation invariants for every live slot.
    pub fn check_state(&mut self, sweep_key: Option<u32>) -> Result<(), Bad> {
        if let Some(v) = world::take_violation() {
            return Err((v.property, Box::leak(v.kind.into_boxed_str()), v.detail));
        }
        let mut expected_blocks = 0;
        let mut expected_bytes = 0;
        for si in 0..self.slots.len() {
            let s = &self.slots[si];
            let d = Self::dump_of(&s.map);
            d.validate(true)?;
            if !d.is_singleton {
                expected_blocks += 1;
                expected_bytes += d.predicted_block().1;
                if self.pristine[si.min(1)] {
                    bad!("C03", "unallocated-collection-owns-block", "a map that was never given an element or a capacity owns a block of {} buckets", d.buckets());
                }
            }
            let asz = s.map.allocation_size();
            let want_sz = if d.is_singleton { 0 } else { d.predicted_block().1 };
            if asz != want_sz {
                bad!("C08", "allocation_size", "allocation_size() = {asz}, block held = {want_sz}");
            }
            if s.map.capacity() < s.map.len() {
                bad!("C08", "capacity-below-len", "capacity {} < len {}", s.map.capacity(), s.map.len());
            }
            if s.map.len() != d.items {
                bad!("C02", "len-vs-items", "len() {} != items {}", s.map.len(), d.items);
            }
            if self.lawful {
                let _q = Quiet::new();
                for i in d.full_indices() {
                    let Some((k, _)) = s.map.verif_bucket(i) else {
                        bad!("C02", "full-slot-without-element", "slot {i}");
                    };
                    k.check("stored key");
                    d.check_slot(i, s.plan.hash(k.id() as u64))?;
                }
                let got = Self::contents_of(&s.map, "iter() item");
                let mut want: Vec<(u32, u32, u64)> = s.model.iter().map(|e| (e.id, e.gen, e.val)).collect();
                want.sort();
                let got3: Vec<(u32, u32, u64)> = got.iter().map(|g| (g.id, g.gen, g.val)).collect();
                if got3 != want {
                    let extra: Vec<_> = got3.iter().filter(|g| !want.contains(g)).take(4).collect();
                    let missing: Vec<_> = want.iter().filter(|w| !got3.contains(w)).take(4).collect();
                    bad!(
                        "C01",
                        "contents-differ",
                        "slot {si}: map holds {} pairs, model {}; not in model: {:?}; missing from map: {:?} (id, gen, val)",
                        got3.len(),
                        want.len(),
                        extra,
                        missing
                    );
                }
                if s.map.len() != s.model.len() || s.map.is_empty() != s.model.is_empty() {
                    bad!("C01", "len", "len() {} model {}", s.map.len(), s.model.len());
                }
            } else {
                // safety subset only: len() == number of yielded elements
                let _q = Quiet::new();
                let n = s.map.iter().count();
                if n != s.map.len() {
                    bad!("C05", "len-vs-iter", "len() {} but iter() yields {n}", s.map.len());
                }
            }
        }
        let st = alloc::stats();
        if (st.n_live != expected_blocks || st.bytes_live != expected_bytes) && !(self.leak_ok && st.n_live >= expected_blocks) {
            bad!(
                "C03",
                "block-accounting",
                "ledger holds {} blocks / {} bytes, collections own {} blocks / {} bytes",
                st.n_live,
                st.bytes_live,
                expected_blocks,
                expected_bytes
            );
        }
        alloc::check_zones(false);
        if let Some(v) = world::take_violation() {
            return Err((v.property, Box::leak(v.kind.into_boxed_str()), v.detail));
        }
        if self.lawful {
            let _q = Quiet::new();
            if let Some(k) = sweep_key {
                self.lookup(self.cur, k, 0)?;
                self.lookup(self.cur, k, 1)?;
            }
            self.steps_since_sweep += 1;
            if self.universe <= 32 || self.steps_since_sweep >= self.sweep_every {
                self.steps_since_sweep = 0;
                self.sweep()?;
            }
        }
        Ok(())
    }

    /// Lookup of every universe id through `Key` and `KeyRef`, and of every model key.
    pub fn sweep(&self) -> Result<(), Bad> {
        let _q = Quiet::new();
        for si in 0..self.slots.len() {
            for id in 0..self.universe {
                self.lookup(si, id, (id % 2) as u64)?;
                if id % 7 == 0 {
                    self.lookup(si, id, 3)?;
                }
            }
            let fresh: Vec<u32> = self.slots[si]
                .model
                .iter()
                .filter(|e| e.id >= self.universe)
                .map(|e| e.id)
                .collect();
            // (bounded: the contents comparison of check_state already covers every stored pair)
            let stride = (fresh.len() / 48).max(1);
            for id in fresh.into_iter().step_by(stride) {
                self.lookup(si, id, 1)?;
            }
        }
        Ok(())
    }

    fn to_violation(&self, step: usize, b: Bad) -> Violation {
        Violation {
            property: b.0,
            kind: b.1.to_string(),
            step,
            detail: b.2,
        }
    }

    /// Labels from the transition `before -> after` of the current slot.
    fn note_transition(&mut self, before: &Dump, op: &Op) {
        let after = Self::dump_of(&self.slots[self.cur].map);
        let clear_like = matches!(
            op.code,
            ops::CLEAR | ops::DRAIN | ops::DROP_RECREATE | ops::INTO_ITER | ops::REBUILD | ops::CLONE_FROM_OTHER | ops::SWAP
        );
        self.labels |= dump::transition_labels(before, &after, clear_like);
    }

    fn pre_labels(&mut self, op: &Op, before: &Dump) {
        // predicted from the pre-state by an independent probe simulation
        let key = match op.code {
            ops::INSERT | ops::TRY_INSERT | ops::ENTRY | ops::ENTRY_REF | ops::GET | ops::REMOVE | ops::GET_MUT
            | ops::RAW_ENTRY | ops::RUSTC_ENTRY | ops::INSERT_UNIQUE_UNCHECKED => Some(self.kid(op.a[0])),
            _ => None,
        };
        if let Some(k) = key {
            let s = &self.slots[self.cur];
            let h = s.plan.hash(k as u64);
            let (n, wrapped) = before.probe_shape(h);
            if n > 1 {
                self.labels |= dump::L_LONG_PROBE;
            }
            if wrapped {
                self.labels |= dump::L_MIRROR_PROBE;
            }
            let absent = Self::mpos(&s.model, k).is_none();
            if absent
                && matches!(op.code, ops::INSERT | ops::TRY_INSERT | ops::ENTRY | ops::ENTRY_REF | ops::INSERT_UNIQUE_UNCHECKED)
                && before.predicts_fixup(h)
            {
                self.labels |= dump::L_FIXUP;
            }
            if !absent && before.n_deleted() > 0 && n > 0 {
                // the key's probe window holds a tombstone
                let w = before.group_width;
                let pos = (h as usize) & before.bucket_mask;
                if !before.is_singleton && (0..w).any(|j| before.ctrl[pos + j] == dump::DELETED) {
                    self.labels |= dump::L_PROBE_TOMB;
                }
            }
        }
    }

    /// Run one step without fault injection. Any panic escaping hashbrown is a violation.
    /// Under inconsistent Hash/Eq answers every violation is one of C05 (the other properties only
    /// speak about lawful implementations).
    pub fn plain_step(&mut self, step: usize, op: &Op) -> Result<(), Violation> {
        let lawful = self.lawful;
        self.plain_step_inner(step, op).map_err(|v| if lawful || v.property == "C05" { v } else { Violation { property: "C05", kind: format!("chaos:{}", v.kind), ..v } })
    }

    fn plain_step_inner(&mut self, step: usize, op: &Op) -> Result<(), Violation> {
        alloc::begin_op();
        let before = Self::dump_of(&self.slots[self.cur].map);
        if self.lawful {
            self.pre_labels(op, &before);
        }
        world::clear_panic_messages();
        let counts0 = world::counts();
        let r = catch_unwind(AssertUnwindSafe(|| self.exec(op)));
        let counts_after_exec = world::counts();
        self.track_pristine(op);
        match r {
            Err(payload) => {
                let msg = world::last_panic_message().unwrap_or_else(|| "<no message>".into());
                let injected = payload.downcast_ref::<Injected>().is_some();
                drop(payload);
                return Err(Violation {
                    property: self.panic_prop,
                    kind: "unexpected-panic".into(),
                    step,
                    detail: format!("operation panicked (injected={injected}): {msg}"),
                });
            }
            Ok(Err(b)) => {
                if self.lawful {
                    return Err(self.to_violation(step, b));
                }
                // inconsistent Hash/Eq answers: results are unspecified, only the safety subset counts
                let counting = matches!(b.1, "yields-fewer" | "yields-more" | "size_hint" | "fold-count" | "for_each-count" | "count" | "not-fused");
                if matches!(b.0, "C02" | "C03" | "C05" | "C13") {
                    return Err(self.to_violation(step, b));
                } else if b.0 == "C09" && counting {
                    return Err(self.to_violation(step, ("C05", b.1, b.2)));
                }
                self.resync();
            }
            Ok(Ok(())) => {}
        }
        let key = match op.code {
            ops::INSERT | ops::TRY_INSERT | ops::ENTRY | ops::ENTRY_REF | ops::REMOVE | ops::GET_MUT => {
                Some(self.kid(op.a[0]))
            }
            _ => None,
        };
        if let Err(b) = self.check_state(key) {
            return Err(self.to_violation(step, b));
        }
        if !self.lawful {
            self.resync();
        }
        if self.c13 {
            if let Err(b) = self.c13_check() {
                return Err(self.to_violation(step, b));
            }
        }
        if self.transcript {
            let mut h: u64 = 0xcbf29ce484222325;
            let _q = Quiet::new();
            for s in &self.slots {
                let mut c: Vec<(u32, u32, u64)> = s.map.iter().map(|(k, v)| (k.id(), k.gen(), v.get())).collect();
                c.sort_unstable();
                h = (h ^ s.map.len() as u64).wrapping_mul(0x100000001b3);
                for (a, b, v) in c {
                    for x in [a as u64, b as u64, v] {
                        h = (h ^ x).wrapping_mul(0x100000001b3);
                    }
                }
            }
            self.out.transcript.push(h);
        }
        let l0 = self.labels;
        self.labels = 0;
        self.note_transition(&before, op);
        let step_labels = self.labels;
        self.labels |= l0;
        if self.trace {
            let c = counts_after_exec;
            let mut d = [0u64; world::NCLASS];
            for i in 0..world::NCLASS {
                d[i] = c[i] - counts0[i];
            }
            self.out.per_step.push((step_labels, d));
        }
        self.c13_track();
        Ok(())
    }

    /// Which operations cannot hand the current map an element or a capacity: after only such
    /// operations a map created with capacity 0 must still own no block ("a collection that was never
    /// given an element or a capacity owns no block at all").
    fn track_pristine(&mut self, op: &Op) {
        let cur = self.cur.min(1);
        let other = cur ^ 1;
        let a = op.a;
        match op.code {
            ops::GET | ops::GET_MUT | ops::REMOVE | ops::CLEAR | ops::SHRINK_TO_FIT | ops::RETAIN | ops::ITER | ops::DRAIN | ops::EXTRACT_IF | ops::SWAP
            | ops::EQ_CHECK | ops::GET_MANY_MUT | ops::RAW_ENTRY_RO | ops::REMOVE_NTH | ops::GET_ABSENT | ops::REMOVE_RUN | ops::REMOVE_ALL_BUT => {}
            ops::EXTEND if a[1] % 25 == 0 => {}
            ops::RESERVE | ops::TRY_RESERVE if a[0] % 97 == 0 => {}
            ops::CLONE_TO_OTHER => self.pristine[other] = self.pristine[cur],
            ops::CLONE_FROM_OTHER => self.pristine[cur] = self.pristine[cur] && self.pristine[other],
            ops::MIRROR_TO_OTHER => self.pristine[other] = false,
            _ => self.pristine[cur] = false,
        }
    }

    /// `From<[(K, V); N]>` (N = 0, 1, 3 with the last pair repeating the first key): same contents as
    /// inserting the pairs in order (value of the last, key of the first occurrence).
    fn from_array_check(sample: &[(u32, u64)]) -> Result<(), Bad> {
        type DMap = hb::HashMap<ArrKey, u64, hb::DefaultHashBuilder, CheckAlloc>;
        let e: DMap = DMap::from([]);
        if e.len() != 0 || e.iter().next().is_some() {
            bad!("C01", "from-array", "HashMap::from([]) is not empty");
        }
        if e.allocation_size() != 0 {
            bad!("C03", "unallocated-collection-owns-block", "HashMap::from([]) owns a block");
        }
        if let Some(&(id, val)) = sample.first() {
            let one: DMap = DMap::from([(ArrKey { id, tag: 1 }, val)]);
            if one.len() != 1 || one.get(&ArrKey { id, tag: 0 }) != Some(&val) {
                bad!("C01", "from-array", "HashMap::from([(k, v)]) does not hold exactly that pair");
            }
            let (id2, val2) = sample.get(1).copied().unwrap_or((id.wrapping_add(1_000_000), val ^ 1));
            let three: DMap = DMap::from([(ArrKey { id, tag: 1 }, val), (ArrKey { id: id2, tag: 2 }, val2), (ArrKey { id, tag: 3 }, val.wrapping_add(9))]);
            let got0 = three.get_key_value(&ArrKey { id, tag: 0 }).map(|(k, v)| (k.tag, *v));
            let got1 = three.get(&ArrKey { id: id2, tag: 0 }).copied();
            if three.len() != 2 || got0 != Some((1, val.wrapping_add(9))) || got1 != Some(val2) {
                bad!("C01", "from-array", "HashMap::from of three pairs with a repeated key: len {} first {:?} second {:?}", three.len(), got0, got1);
            }
        }
        Ok(())
    }

    fn c13_track(&mut self) {
        let live = self.slots[self.cur].model.len();
        self.c13_peak_live = self.c13_peak_live.max(live);
    }

    /// Model := observed contents (after unspecified results under inconsistent Hash/Eq).
    fn resync(&mut self) {
        let _q = Quiet::new();
        for s in self.slots.iter_mut() {
            s.model = s.map.iter().map(|(k, v)| ME { id: k.id(), gen: k.gen(), val: v.get() }).collect();
            s.plan = s.map.hasher().plan;
        }
    }

    /// C13: the allocation stays below that of with_capacity(4 * peak live count).
    fn c13_check(&mut self) -> Result<(), Bad> {
        let live = self.slots[self.cur].model.len() + 1;
        // (the peak may also have been raised inside a macro-operation: `c13_bound_peak` remembers
        // which peak the bound was computed for)
        if live > self.c13_peak_live || self.c13_bound == 0 || self.c13_bound_peak != self.c13_peak_live {
            self.c13_peak_live = self.c13_peak_live.max(live);
            self.c13_bound_peak = self.c13_peak_live;
            let plan = self.slots[self.cur].plan;
            let fresh: Map<K, V> = Map::with_capacity_and_hasher_in(4 * self.c13_peak_live.max(1), PlanBuildHasher::new(plan), CheckAlloc);
            self.c13_bound = fresh.allocation_size();
        }
        let sz = self.slots[self.cur].map.allocation_size();
        let ratio = (sz as u64 * 1000 / self.c13_bound.max(1) as u64) as u64;
        if ratio > self.c13_max_ratio {
            self.c13_max_ratio = ratio;
        }
        if sz > self.c13_bound {
            bad!("C13", "allocation-exceeds-bound", "allocation_size {} > {} = with_capacity(4 * peak live {}) ", sz, self.c13_bound, self.c13_peak_live);
        }
        Ok(())
    }

    /// End of case: final sweep, drop everything, then the global ledgers must balance.
    pub fn finish(mut self, step: usize) -> (Outcome, Option<Violation>) {
        let mut v = None;
        if self.lawful {
            if let Err(b) = self.sweep() {
                v = Some(self.to_violation(step, b));
            }
        }
        let labels = self.labels;
        let mut out = std::mem::take(&mut self.out);
        out.labels = labels;
        if self.c13 {
            out.count("max_c13_ratio_permille", self.c13_max_ratio);
            out.count("basic_ops", self.basic_ops);
            out.count("max_peak_live", self.c13_peak_live as u64);
        }
        if v.is_some() {
            std::mem::forget(self.slots);
            return (out, v);
        }
        let slots = std::mem::take(&mut self.slots);
        let r = catch_unwind(AssertUnwindSafe(move || drop(slots)));
        if let Err(p) = r {
            drop(p);
            let msg = world::last_panic_message().unwrap_or_default();
            return (
                out,
                Some(Violation {
                    property: self.panic_prop,
                    kind: "unexpected-panic".into(),
                    step,
                    detail: format!("dropping the collections panicked: {msg}"),
                }),
            );
        }
        alloc::check_zones(true);
        if let Some(v) = world::take_violation() {
            return (out, Some(v));
        }
        let st = alloc::stats();
        if self.leak_ok {
            return (out, None);
        }
        if st.n_live != 0 {
            return (
                out,
                Some(Violation {
                    property: "C03",
                    kind: "block-leaked".into(),
                    step,
                    detail: format!("{} blocks ({} bytes) still allocated after every collection was dropped", st.n_live, st.bytes_live),
                }),
            );
        }
        let live = world::with(|w| w.live_elems);
        if live != 0 {
            let which: Vec<u64> = world::live_serials().into_iter().take(6).collect();
            return (
                out,
                Some(Violation {
                    property: "C03",
                    kind: "element-leaked".into(),
                    step,
                    detail: format!("{live} tracked elements never dropped (serials {:?} ...)", which),
                }),
            );
        }
        (out, None)
    }
}

include!("interp_map_more.rs");

/// Run a map case with the element flavour chosen by the header (`elem`: 0 tracked, 1 plain).
pub fn run_case(case: &Case) -> Outcome {
    match case.h("elem") {
        0 => run_typed::<crate::elem::Key, crate::elem::Val>(case),
        _ => run_typed::<crate::elem::PKey, crate::elem::PVal>(case),
    }
}

pub fn run_typed<K, V>(case: &Case) -> Outcome
where
    K: KeyT + for<'a> From<&'a KeyRef>,
    V: ValT + Default,
    KeyRef: hb::Equivalent<K>,
    crate::elem::KeyLen: hb::Equivalent<K>,
{
    world::install_panic_hook();
    world::reset();
    let mut it: Interp<'_, K, V> = Interp::new(case);
    let fault_step = case.h_or("fault_step", u64::MAX);
    let mut violation = None;
    let mut steps = 0;
    for (i, op) in case.ops.iter().enumerate() {
        world::set_step(i);
        steps = i + 1;
        let r = if i as u64 == fault_step {
            it.faulted_step(i, op)
        } else {
            it.plain_step(i, op)
        };
        if let Err(v) = r {
            violation = Some(v);
            break;
        }
    }
    if let Some(v) = violation {
        let labels = it.labels;
        let mut out = std::mem::take(&mut it.out);
        // the structure may be corrupt: never run destructors of the collections
        std::mem::forget(it);
        out.labels = labels;
        out.violation = Some(v);
        out.steps = steps;
        world::with(|w| w.quiet = 0);
        return out;
    }
    let chaos = case.h("chaos") != 0;
    let (mut out, v) = it.finish(steps);
    // leaks / double drops at the end of a case with inconsistent Hash/Eq belong to C05
    out.violation = v.map(|v| if chaos && v.property != "C05" { Violation { property: "C05", kind: format!("chaos:{}", v.kind), ..v } } else { v });
    out.steps = steps;
    out
}
