//! Operation alphabets (shared by both back-ends, the generators and the text format).

use crate::case::{Arg, OpSpec};
use Arg::*;

pub mod map {
    pub const INSERT: u16 = 0;
    pub const TRY_INSERT: u16 = 1;
    pub const GET: u16 = 2;
    pub const GET_MUT: u16 = 3;
    pub const REMOVE: u16 = 4;
    pub const ENTRY: u16 = 5;
    pub const ENTRY_REF: u16 = 6;
    pub const EXTEND: u16 = 7;
    pub const REBUILD: u16 = 8;
    pub const CLEAR: u16 = 9;
    pub const RESERVE: u16 = 10;
    pub const SHRINK_TO_FIT: u16 = 11;
    pub const SHRINK_TO: u16 = 12;
    pub const RETAIN: u16 = 13;
    pub const FILL_TO_CAPACITY: u16 = 14;
    pub const FILL_EXACT: u16 = 15;
    pub const REMOVE_RUN: u16 = 16;
    pub const REMOVE_ALL_BUT: u16 = 17;
    pub const CHURN: u16 = 18;
    pub const RESERVE_TO_BOUNDARY: u16 = 19;
    pub const INSERT_UNIQUE_UNCHECKED: u16 = 20;
    pub const ITER: u16 = 21;
    pub const DRAIN: u16 = 22;
    pub const EXTRACT_IF: u16 = 23;
    pub const SWAP: u16 = 24;
    pub const CLONE_TO_OTHER: u16 = 25;
    pub const CLONE_FROM_OTHER: u16 = 26;
    pub const EQ_CHECK: u16 = 27;
    pub const GET_MANY_MUT: u16 = 28;
    pub const RAW_ENTRY: u16 = 29;
    pub const RUSTC_ENTRY: u16 = 30;
    pub const INTO_ITER: u16 = 31;
    pub const TRY_RESERVE: u16 = 32;
    pub const DROP_RECREATE: u16 = 33;
    pub const REMOVE_NTH: u16 = 34;
    pub const GET_ABSENT: u16 = 35;
    pub const RAW_ENTRY_RO: u16 = 36;
    pub const REHASH_SETUP: u16 = 37;
    pub const CAPPED_CHURN: u16 = 38;
    pub const MIRROR_TO_OTHER: u16 = 39;
}

pub static MAP_OPS: &[OpSpec] = &[
    OpSpec { code: map::INSERT, name: "insert", args: &[Key, Val] },
    OpSpec { code: map::TRY_INSERT, name: "try_insert", args: &[Key, Val] },
    OpSpec { code: map::GET, name: "get", args: &[Key, Choice(5)] },
    OpSpec { code: map::GET_MUT, name: "get_mut", args: &[Key, Val, Choice(2)] },
    OpSpec { code: map::REMOVE, name: "remove", args: &[Key, Choice(3)] },
    OpSpec { code: map::ENTRY, name: "entry", args: &[Key, Choice(16), Val] },
    OpSpec { code: map::ENTRY_REF, name: "entry_ref", args: &[Key, Choice(14), Val] },
    OpSpec { code: map::EXTEND, name: "extend", args: &[Key, Small(24), Val] },
    OpSpec { code: map::REBUILD, name: "rebuild", args: &[] },
    OpSpec { code: map::CLEAR, name: "clear", args: &[] },
    OpSpec { code: map::RESERVE, name: "reserve", args: &[Small(96)] },
    OpSpec { code: map::SHRINK_TO_FIT, name: "shrink_to_fit", args: &[] },
    OpSpec { code: map::SHRINK_TO, name: "shrink_to", args: &[Frac] },
    OpSpec { code: map::RETAIN, name: "retain", args: &[Any, Small(100), Bool] },
    OpSpec { code: map::FILL_TO_CAPACITY, name: "fill_to_capacity", args: &[] },
    OpSpec { code: map::FILL_EXACT, name: "fill_exact", args: &[Small(40)] },
    OpSpec { code: map::REMOVE_RUN, name: "remove_run", args: &[Frac, Small(40)] },
    OpSpec { code: map::REMOVE_ALL_BUT, name: "remove_all_but", args: &[Small(12)] },
    OpSpec { code: map::CHURN, name: "churn", args: &[Small(40)] },
    OpSpec { code: map::RESERVE_TO_BOUNDARY, name: "reserve_to_boundary", args: &[Small(7), Choice(3)] },
    OpSpec { code: map::INSERT_UNIQUE_UNCHECKED, name: "insert_unique_unchecked", args: &[Key, Val] },
    OpSpec { code: map::ITER, name: "iter", args: &[Choice(9), Frac, Choice(5)] },
    OpSpec { code: map::DRAIN, name: "drain", args: &[Frac, Choice(2)] },
    OpSpec { code: map::EXTRACT_IF, name: "extract_if", args: &[Any, Small(100), Frac, Bool] },
    OpSpec { code: map::SWAP, name: "swap", args: &[] },
    OpSpec { code: map::CLONE_TO_OTHER, name: "clone_to_other", args: &[] },
    OpSpec { code: map::CLONE_FROM_OTHER, name: "clone_from_other", args: &[] },
    OpSpec { code: map::EQ_CHECK, name: "eq_check", args: &[] },
    OpSpec { code: map::GET_MANY_MUT, name: "get_many_mut", args: &[Small(4), Key, Key, Key, Key, Choice(6)] },
    OpSpec { code: map::RAW_ENTRY, name: "raw_entry_mut", args: &[Key, Choice(3), Choice(12), Val] },
    OpSpec { code: map::RUSTC_ENTRY, name: "rustc_entry", args: &[Key, Choice(10), Val] },
    OpSpec { code: map::INTO_ITER, name: "into_iter", args: &[Choice(3), Frac] },
    OpSpec { code: map::TRY_RESERVE, name: "try_reserve", args: &[Small(96)] },
    OpSpec { code: map::DROP_RECREATE, name: "drop_recreate", args: &[Small(40)] },
    OpSpec { code: map::REMOVE_NTH, name: "remove_nth", args: &[Frac] },
    OpSpec { code: map::GET_ABSENT, name: "get_absent", args: &[Small(4)] },
    OpSpec { code: map::RAW_ENTRY_RO, name: "raw_entry", args: &[Key, Choice(3)] },
    OpSpec { code: map::REHASH_SETUP, name: "rehash_setup", args: &[Small(6)] },
    OpSpec { code: map::MIRROR_TO_OTHER, name: "mirror_to_other", args: &[Choice(3)] },
    OpSpec { code: map::CAPPED_CHURN, name: "capped_churn", args: &[Small(64), Choice(6), Any, Bool] },
];

pub mod table {
    pub const INSERT_UNIQUE: u16 = 0;
    pub const INSERT_DUP: u16 = 1;
    pub const FIND: u16 = 2;
    pub const FIND_MUT: u16 = 3;
    pub const FIND_ENTRY: u16 = 4;
    pub const ENTRY: u16 = 5;
    pub const RETAIN: u16 = 6;
    pub const EXTRACT_IF: u16 = 7;
    pub const DRAIN: u16 = 8;
    pub const CLEAR: u16 = 9;
    pub const RESERVE: u16 = 10;
    pub const TRY_RESERVE: u16 = 11;
    pub const SHRINK_TO_FIT: u16 = 12;
    pub const SHRINK_TO: u16 = 13;
    pub const GET_MANY_MUT: u16 = 14;
    pub const ITER_HASH: u16 = 15;
    pub const ITER: u16 = 16;
    pub const CLONE_SWAP: u16 = 17;
    pub const FILL_TO_CAPACITY: u16 = 18;
    pub const REMOVE_RUN: u16 = 19;
    pub const REMOVE_ALL_BUT: u16 = 20;
    pub const REHASH_SETUP: u16 = 21;
    pub const REMOVE_NTH: u16 = 22;
}

pub static TABLE_OPS: &[OpSpec] = &[
    OpSpec { code: table::INSERT_UNIQUE, name: "insert_unique", args: &[Key, Val] },
    OpSpec { code: table::INSERT_DUP, name: "insert_dup", args: &[Frac, Val] },
    OpSpec { code: table::FIND, name: "find", args: &[Key] },
    OpSpec { code: table::FIND_MUT, name: "find_mut", args: &[Key, Val] },
    OpSpec { code: table::FIND_ENTRY, name: "find_entry", args: &[Key, Choice(7), Val] },
    OpSpec { code: table::ENTRY, name: "entry", args: &[Key, Choice(8), Val] },
    OpSpec { code: table::RETAIN, name: "retain", args: &[Any, Small(100), Bool] },
    OpSpec { code: table::EXTRACT_IF, name: "extract_if", args: &[Any, Small(100), Frac, Bool] },
    OpSpec { code: table::DRAIN, name: "drain", args: &[Frac, Choice(2)] },
    OpSpec { code: table::CLEAR, name: "clear", args: &[] },
    OpSpec { code: table::RESERVE, name: "reserve", args: &[Small(96)] },
    OpSpec { code: table::TRY_RESERVE, name: "try_reserve", args: &[Small(96)] },
    OpSpec { code: table::SHRINK_TO_FIT, name: "shrink_to_fit", args: &[] },
    OpSpec { code: table::SHRINK_TO, name: "shrink_to", args: &[Frac] },
    OpSpec { code: table::GET_MANY_MUT, name: "get_many_mut", args: &[Small(4), Key, Key, Key, Key, Choice(2)] },
    OpSpec { code: table::ITER_HASH, name: "iter_hash", args: &[Key, Bool] },
    OpSpec { code: table::ITER, name: "iter", args: &[Choice(3), Frac, Choice(6)] },
    OpSpec { code: table::CLONE_SWAP, name: "clone_swap", args: &[Bool] },
    OpSpec { code: table::FILL_TO_CAPACITY, name: "fill_to_capacity", args: &[] },
    OpSpec { code: table::REMOVE_RUN, name: "remove_run", args: &[Frac, Small(40)] },
    OpSpec { code: table::REMOVE_ALL_BUT, name: "remove_all_but", args: &[Small(12)] },
    OpSpec { code: table::REHASH_SETUP, name: "rehash_setup", args: &[Small(6)] },
    OpSpec { code: table::REMOVE_NTH, name: "remove_nth", args: &[Frac] },
];

pub mod set {
    pub const INSERT: u16 = 0;
    pub const INSERT_RANGE: u16 = 1;
    pub const REPLACE: u16 = 2;
    pub const REMOVE: u16 = 3;
    pub const GET_OR_INSERT: u16 = 4;
    pub const GET_OR_INSERT_WITH: u16 = 5;
    pub const GET: u16 = 6;
    pub const ENTRY: u16 = 7;
    pub const SWAP: u16 = 8;
    pub const ALGEBRA: u16 = 9;
    pub const PREDICATES: u16 = 10;
    pub const OPERATORS: u16 = 11;
    pub const ASSIGN: u16 = 12;
    pub const EXTEND: u16 = 13;
    pub const RETAIN: u16 = 14;
    pub const EXTRACT_IF: u16 = 15;
    pub const DRAIN: u16 = 16;
    pub const CLEAR: u16 = 17;
    pub const SHRINK_TO_FIT: u16 = 18;
    pub const RESERVE: u16 = 19;
    pub const ITER: u16 = 20;
    pub const FILL_TO_CAPACITY: u16 = 21;
    pub const REMOVE_RUN: u16 = 22;
    pub const CLONE: u16 = 23;
    pub const MIRROR: u16 = 24;
    pub const REBUILD: u16 = 25;
}

pub static SET_OPS: &[OpSpec] = &[
    OpSpec { code: set::INSERT, name: "insert", args: &[Key] },
    OpSpec { code: set::INSERT_RANGE, name: "insert_range", args: &[Key, Small(24)] },
    OpSpec { code: set::REPLACE, name: "replace", args: &[Key] },
    OpSpec { code: set::REMOVE, name: "remove", args: &[Key, Choice(3)] },
    OpSpec { code: set::GET_OR_INSERT, name: "get_or_insert", args: &[Key] },
    OpSpec { code: set::GET_OR_INSERT_WITH, name: "get_or_insert_with", args: &[Key, Bool] },
    OpSpec { code: set::GET, name: "get", args: &[Key] },
    OpSpec { code: set::ENTRY, name: "entry", args: &[Key, Choice(8)] },
    OpSpec { code: set::SWAP, name: "swap", args: &[] },
    OpSpec { code: set::ALGEBRA, name: "algebra", args: &[Choice(4), Bool, Choice(4), Any] },
    OpSpec { code: set::PREDICATES, name: "predicates", args: &[] },
    OpSpec { code: set::OPERATORS, name: "operators", args: &[Choice(4), Bool] },
    OpSpec { code: set::ASSIGN, name: "assign", args: &[Choice(4)] },
    OpSpec { code: set::EXTEND, name: "extend", args: &[Key, Small(24)] },
    OpSpec { code: set::RETAIN, name: "retain", args: &[Any, Small(100)] },
    OpSpec { code: set::EXTRACT_IF, name: "extract_if", args: &[Any, Small(100), Frac] },
    OpSpec { code: set::DRAIN, name: "drain", args: &[Frac, Choice(2)] },
    OpSpec { code: set::CLEAR, name: "clear", args: &[] },
    OpSpec { code: set::SHRINK_TO_FIT, name: "shrink_to_fit", args: &[] },
    OpSpec { code: set::RESERVE, name: "reserve", args: &[Small(96)] },
    OpSpec { code: set::ITER, name: "iter", args: &[Choice(2), Frac, Choice(6)] },
    OpSpec { code: set::FILL_TO_CAPACITY, name: "fill_to_capacity", args: &[] },
    OpSpec { code: set::REMOVE_RUN, name: "remove_run", args: &[Frac, Small(40)] },
    OpSpec { code: set::CLONE, name: "clone", args: &[Bool] },
    OpSpec { code: set::MIRROR, name: "mirror", args: &[Any] },
    OpSpec { code: set::REBUILD, name: "rebuild", args: &[] },
];

pub mod lay {
    pub const INSERT: u16 = 0;
    pub const REMOVE: u16 = 1;
    pub const GET: u16 = 2;
    pub const LIFE: u16 = 3;
    pub const RESERVE: u16 = 4;
    pub const SHRINK_TO_FIT: u16 = 5;
    pub const SHRINK_TO: u16 = 6;
    pub const CLEAR: u16 = 7;
    pub const CLONE_SWAP: u16 = 8;
    pub const FILL_TO_CAPACITY: u16 = 9;
    pub const REMOVE_RUN: u16 = 10;
    pub const RETAIN: u16 = 11;
    pub const WITH_CAPACITY: u16 = 12;
    pub const TRY_RESERVE: u16 = 13;
}

pub static LAY_OPS: &[OpSpec] = &[
    OpSpec { code: lay::INSERT, name: "insert", args: &[Key] },
    OpSpec { code: lay::REMOVE, name: "remove", args: &[Key] },
    OpSpec { code: lay::GET, name: "get", args: &[Key] },
    OpSpec { code: lay::LIFE, name: "life", args: &[Choice(14), Frac, Bool, Key] },
    OpSpec { code: lay::RESERVE, name: "reserve", args: &[Small(96)] },
    OpSpec { code: lay::SHRINK_TO_FIT, name: "shrink_to_fit", args: &[] },
    OpSpec { code: lay::SHRINK_TO, name: "shrink_to", args: &[Frac] },
    OpSpec { code: lay::CLEAR, name: "clear", args: &[] },
    OpSpec { code: lay::CLONE_SWAP, name: "clone_swap", args: &[Bool] },
    OpSpec { code: lay::FILL_TO_CAPACITY, name: "fill_to_capacity", args: &[] },
    OpSpec { code: lay::REMOVE_RUN, name: "remove_run", args: &[Frac, Small(40)] },
    OpSpec { code: lay::RETAIN, name: "retain", args: &[Any, Small(100)] },
    OpSpec { code: lay::WITH_CAPACITY, name: "with_capacity", args: &[Frac] },
    OpSpec { code: lay::TRY_RESERVE, name: "try_reserve", args: &[Small(161), Choice(4), Any] },
];

pub mod par {
    pub const INSERT: u16 = 0;
    pub const FILL: u16 = 1;
    pub const REMOVE_RANGE: u16 = 2;
    pub const REMOVE_STRIDE: u16 = 3;
    pub const PAR: u16 = 4;
}

pub static PAR_OPS: &[OpSpec] = &[
    OpSpec { code: par::INSERT, name: "insert", args: &[Small(4999), Choice(4), Val] },
    OpSpec { code: par::FILL, name: "fill", args: &[Small(3000), Choice(4), Small(3999)] },
    OpSpec { code: par::REMOVE_RANGE, name: "remove_range", args: &[Small(4999), Choice(4), Small(1499)] },
    OpSpec { code: par::REMOVE_STRIDE, name: "remove_stride", args: &[Small(6), Choice(4)] },
    OpSpec { code: par::PAR, name: "par", args: &[Choice(16), Choice(7), Wide, Wide] },
];

pub static SERDE_OPS: &[OpSpec] = &[OpSpec { code: 0, name: "entry", args: &[Key, Val] }];

pub fn specs_for(kind: &str) -> &'static [OpSpec] {
    match kind {
        "map" => MAP_OPS,
        "table" => TABLE_OPS,
        "set" => SET_OPS,
        "lay" => LAY_OPS,
        "serde" => SERDE_OPS,
        "par" => PAR_OPS,
        _ => &[],
    }
}
