//! Shared support for the C19 interpreter: atomics-based element registry, pass-through counting
//! allocator that is Send + Sync, cached rayon pools.

use allocator_api2::alloc::{AllocError, Allocator, Layout};
use std::alloc::{GlobalAlloc, System};
use std::collections::HashMap;
use std::hash::{Hash, Hasher};
use std::ptr::NonNull;
use std::sync::atomic::{AtomicI64, AtomicU32, AtomicU8, Ordering};
use std::sync::{Arc, Mutex, OnceLock};

const REG_CAP: usize = 1 << 18;

pub struct Reg {
    drops: Vec<AtomicU8>,
    next: AtomicU32,
}

impl Reg {
    pub fn new() -> Reg {
        let mut v = Vec::with_capacity(REG_CAP);
        v.resize_with(REG_CAP, || AtomicU8::new(0));
        Reg { drops: v, next: AtomicU32::new(0) }
    }
    pub fn created(&self) -> u32 {
        self.next.load(Ordering::SeqCst).min(REG_CAP as u32)
    }
    pub fn drops(&self, serial: u32) -> u8 {
        self.drops.get(serial as usize).map_or(1, |a| a.load(Ordering::SeqCst))
    }
    pub fn any_double_drop(&self) -> bool {
        let n = self.created() as usize;
        self.drops[..n].iter().any(|a| a.load(Ordering::Relaxed) > 1)
    }
}

impl Default for Reg {
    fn default() -> Self {
        Reg::new()
    }
}

/// Send + Sync tracked key.
pub struct RK {
    pub id: u32,
    pub serial: u32,
    touch: u8,
    reg: Arc<Reg>,
}

impl RK {
    pub fn new(id: u32, reg: &Arc<Reg>) -> RK {
        let serial = reg.next.fetch_add(1, Ordering::SeqCst);
        RK { id, serial, touch: 0, reg: reg.clone() }
    }
    pub fn touch(&mut self) {
        self.touch = self.touch.saturating_add(1);
    }
    pub fn touched(&self) -> u8 {
        self.touch
    }
    pub fn untouch(&mut self) {
        self.touch = 0;
    }
}

impl Drop for RK {
    fn drop(&mut self) {
        if let Some(a) = self.reg.drops.get(self.serial as usize) {
            let _ = a.fetch_update(Ordering::SeqCst, Ordering::SeqCst, |v| Some(v.saturating_add(1)));
        }
    }
}

impl Clone for RK {
    fn clone(&self) -> RK {
        RK::new(self.id, &self.reg)
    }
}
impl PartialEq for RK {
    fn eq(&self, o: &RK) -> bool {
        self.id == o.id
    }
}
impl Eq for RK {}
impl Hash for RK {
    fn hash<H: Hasher>(&self, h: &mut H) {
        h.write_u32(self.id);
    }
}

#[derive(Default)]
struct Counters {
    blocks: AtomicI64,
    bytes: AtomicI64,
}

#[derive(Clone, Default)]
pub struct SyncAlloc {
    c: Arc<Counters>,
}

impl SyncAlloc {
    pub fn new() -> SyncAlloc {
        SyncAlloc::default()
    }
    pub fn live_blocks(&self) -> i64 {
        self.c.blocks.load(Ordering::SeqCst)
    }
    pub fn live_bytes(&self) -> i64 {
        self.c.bytes.load(Ordering::SeqCst)
    }
}

unsafe impl Allocator for SyncAlloc {
    fn allocate(&self, layout: Layout) -> Result<NonNull<[u8]>, AllocError> {
        let p = unsafe { System.alloc(Layout::from_size_align(layout.size().max(1), layout.align()).map_err(|_| AllocError)?) };
        let p = NonNull::new(p).ok_or(AllocError)?;
        self.c.blocks.fetch_add(1, Ordering::SeqCst);
        self.c.bytes.fetch_add(layout.size() as i64, Ordering::SeqCst);
        Ok(NonNull::slice_from_raw_parts(p, layout.size()))
    }
    unsafe fn deallocate(&self, ptr: NonNull<u8>, layout: Layout) {
        self.c.blocks.fetch_sub(1, Ordering::SeqCst);
        self.c.bytes.fetch_sub(layout.size() as i64, Ordering::SeqCst);
        System.dealloc(ptr.as_ptr(), Layout::from_size_align_unchecked(layout.size().max(1), layout.align()));
    }
}

/// Cached rayon pools, one per thread count.
pub fn pool(threads: usize) -> Arc<rayon::ThreadPool> {
    static POOLS: OnceLock<Mutex<HashMap<usize, Arc<rayon::ThreadPool>>>> = OnceLock::new();
    let m = POOLS.get_or_init(|| Mutex::new(HashMap::new()));
    let mut g = m.lock().unwrap();
    g.entry(threads)
        .or_insert_with(|| Arc::new(rayon::ThreadPoolBuilder::new().num_threads(threads).thread_name(move |i| format!("c19-{threads}-{i}")).build().expect("rayon pool")))
        .clone()
}
