//! Case = header (named integers) + list of operations (name + up to 6 integer arguments).
//! The canonical text form is the replay-file format.

use std::collections::BTreeMap;
use std::fmt::Write as _;

pub const MAX_ARGS: usize = 6;

#[derive(Clone, Copy, Debug, PartialEq, Eq, Hash)]
pub struct Op {
    pub code: u16,
    pub a: [u64; MAX_ARGS],
}

impl Op {
    pub fn new(code: u16, args: &[u64]) -> Op {
        let mut a = [0u64; MAX_ARGS];
        for (i, v) in args.iter().enumerate().take(MAX_ARGS) {
            a[i] = *v;
        }
        Op { code, a }
    }
}

/// Kind of an argument: tells generators which domain to draw from.
#[derive(Clone, Copy, Debug, PartialEq, Eq)]
pub enum Arg {
    /// key id in the case's universe
    Key,
    /// value payload
    Val,
    /// small count 0..=n
    Small(u64),
    /// 16-bit fraction, mapped monotonically onto state-dependent ranges
    Frac,
    /// 0/1
    Bool,
    /// choice among n alternatives
    Choice(u64),
    /// arbitrary 64-bit value (mostly small)
    Any,
    /// uniformly random 64-bit value
    Wide,
}

#[derive(Clone, Copy, Debug)]
pub struct OpSpec {
    pub code: u16,
    pub name: &'static str,
    pub args: &'static [Arg],
}

#[derive(Clone, Debug, PartialEq, Eq, Default)]
pub struct Case {
    /// which interpreter: "map", "table", "set", ...
    pub kind: String,
    pub header: BTreeMap<String, u64>,
    pub ops: Vec<Op>,
}

impl Case {
    pub fn new(kind: &str) -> Case {
        Case {
            kind: kind.to_string(),
            header: BTreeMap::new(),
            ops: Vec::new(),
        }
    }
    pub fn h(&self, key: &str) -> u64 {
        self.header.get(key).copied().unwrap_or(0)
    }
    pub fn h_or(&self, key: &str, d: u64) -> u64 {
        self.header.get(key).copied().unwrap_or(d)
    }
    pub fn set(&mut self, key: &str, v: u64) -> &mut Self {
        self.header.insert(key.to_string(), v);
        self
    }

    pub fn to_text(&self, specs: &[OpSpec]) -> String {
        let mut s = String::new();
        let _ = writeln!(s, "hbv-case 1 {}", self.kind);
        for (k, v) in &self.header {
            let _ = writeln!(s, "h {k} {v}");
        }
        for op in &self.ops {
            match specs.iter().find(|sp| sp.code == op.code) {
                Some(sp) => {
                    let _ = write!(s, "op {}", sp.name);
                    for i in 0..sp.args.len() {
                        let _ = write!(s, " {}", op.a[i]);
                    }
                    s.push('\n');
                }
                None => {
                    let _ = write!(s, "op #{}", op.code);
                    for i in 0..MAX_ARGS {
                        let _ = write!(s, " {}", op.a[i]);
                    }
                    s.push('\n');
                }
            }
        }
        s
    }

    /// Parse the text form. Lines starting with `#` are comments.
    pub fn from_text(text: &str, specs_for: &dyn Fn(&str) -> &'static [OpSpec]) -> Result<Case, String> {
        let mut lines = text
            .lines()
            .map(|l| l.trim())
            .filter(|l| !l.is_empty() && !l.starts_with('#'));
        let first = lines.next().ok_or("empty case file")?;
        let mut it = first.split_whitespace();
        if it.next() != Some("hbv-case") {
            return Err("missing hbv-case header".into());
        }
        let _ver = it.next();
        let kind = it.next().ok_or("missing kind")?.to_string();
        let specs = specs_for(&kind);
        let mut case = Case::new(&kind);
        for l in lines {
            let mut it = l.split_whitespace();
            match it.next() {
                Some("h") => {
                    let k = it.next().ok_or("h: missing key")?;
                    let v: u64 = it
                        .next()
                        .ok_or("h: missing value")?
                        .parse()
                        .map_err(|e| format!("h {k}: {e}"))?;
                    case.header.insert(k.to_string(), v);
                }
                Some("op") => {
                    let name = it.next().ok_or("op: missing name")?;
                    let code = if let Some(n) = name.strip_prefix('#') {
                        n.parse::<u16>().map_err(|e| format!("op {name}: {e}"))?
                    } else {
                        specs
                            .iter()
                            .find(|sp| sp.name == name)
                            .ok_or_else(|| format!("unknown op {name}"))?
                            .code
                    };
                    let mut a = [0u64; MAX_ARGS];
                    for (i, t) in it.enumerate().take(MAX_ARGS) {
                        a[i] = t.parse().map_err(|e| format!("op {name} arg {i}: {e}"))?;
                    }
                    case.ops.push(Op { code, a });
                }
                Some(x) => return Err(format!("unknown line kind {x}")),
                None => {}
            }
        }
        Ok(case)
    }

    /// FNV-1a digest of the structural content.
    pub fn digest(&self) -> u64 {
        let mut h: u64 = 0xcbf29ce484222325;
        let mut feed = |b: &[u8]| {
            for x in b {
                h ^= *x as u64;
                h = h.wrapping_mul(0x100000001b3);
            }
        };
        feed(self.kind.as_bytes());
        for (k, v) in &self.header {
            feed(k.as_bytes());
            feed(&v.to_le_bytes());
        }
        for op in &self.ops {
            feed(&op.code.to_le_bytes());
            for a in &op.a {
                feed(&a.to_le_bytes());
            }
        }
        h
    }
}

/// Map a 16-bit fraction monotonically onto `0..=max`.
pub fn frac_to(frac: u64, max: usize) -> usize {
    (((frac & 0xffff) as u128 * (max as u128 + 1)) >> 16) as usize
}

/// Map a 16-bit fraction monotonically onto `0..len` (len > 0).
pub fn frac_index(frac: u64, len: usize) -> usize {
    debug_assert!(len > 0);
    (((frac & 0xffff) as u128 * (len as u128)) >> 16) as usize
}
