// HashSet interpreter: two sets with independent histories, capacities and hash plans; set algebra
// against mathematical sets (C07). Included once per back-end.

use crate::alloc::{self, CheckAlloc};
use crate::case::{frac_index, frac_to, Case, Op};
use crate::dump::{self, Bad, Dump};
use crate::elem::{KeyRef, KeyT};
use crate::outcome::Outcome;
use crate::plan::{splitmix64, Plan, PlanBuildHasher};
use crate::specs::set as ops;
use crate::world::{self, Class, Injected, Quiet, Violation};
use std::collections::BTreeSet;
use std::panic::{catch_unwind, AssertUnwindSafe};

pub type Set<K> = hb::HashSet<K, PlanBuildHasher, CheckAlloc>;

pub struct SSlot<K> {
    pub set: Set<K>,
    /// (id, gen)
    pub model: Vec<(u32, u32)>,
    pub plan: Plan,
}

/// `Extend<&T>` needs `Copy` elements: only the plain key flavour has it.
fn extend_by_ref<K: KeyT>(set: &mut Set<K>, items: &Vec<K>) -> bool {
    use crate::elem::PKey;
    use std::any::Any;
    let (Some(s), Some(it)) = ((set as &mut dyn Any).downcast_mut::<Set<PKey>>(), (items as &dyn Any).downcast_ref::<Vec<PKey>>()) else {
        return false;
    };
    s.extend(it.iter());
    true
}

fn keep(id: u32, salt: u64, pct: u64) -> bool {
    splitmix64(id as u64 ^ salt.wrapping_mul(0x9E37_79B9)) % 100 < pct
}

pub struct SInterp<'c, K: KeyT> {
    case: &'c Case,
    slots: Vec<SSlot<K>>,
    cur: usize,
    universe: u32,
    next_gen: u32,
    next_fresh: u32,
    pub labels: u32,
    pub out: Outcome,
    /// a destructor panicked: elements / blocks may legitimately be leaked
    leak_ok: bool,
    /// per set: never given an element or a capacity (C03: it must own no block)
    pristine: [bool; 2],
    /// false when the case runs with inconsistent Hash / Eq answers (C05): only the safety subset
    /// is judged and the models are re-synchronised to the observed contents after every step
    lawful: bool,
}

fn plan_h(case: &Case, prefix: &str) -> Plan {
    Plan {
        pos_rule: case.h(&format!("{prefix}pos")) as u32,
        pos_param: case.h(&format!("{prefix}pos_p")) as u32,
        tag_rule: case.h(&format!("{prefix}tag")) as u32,
        tag_param: case.h(&format!("{prefix}tag_p")) as u32,
        seed: case.h(&format!("{prefix}seed")),
    }
}

impl<'c, K> SInterp<'c, K>
where
    K: KeyT + for<'a> From<&'a KeyRef>,
    KeyRef: hb::Equivalent<K>,
{
    pub fn new(case: &'c Case) -> Self {
        let pa = plan_h(case, "");
        let pb = plan_h(case, "b_");
        world::with(|w| w.default_plan = pa);
        crate::plan::setup_chaos(case);
        let a = Set::with_capacity_and_hasher_in(case.h("cap") as usize, PlanBuildHasher::new(pa), CheckAlloc);
        let b = Set::with_capacity_and_hasher_in(case.h("b_cap") as usize, PlanBuildHasher::new(pb), CheckAlloc);
        SInterp {
            case,
            slots: vec![SSlot { set: a, model: Vec::new(), plan: pa }, SSlot { set: b, model: Vec::new(), plan: pb }],
            cur: 0,
            universe: (case.h_or("u", 16) as u32).max(1),
            next_gen: 0,
            next_fresh: 0,
            labels: 0,
            out: Outcome::default(),
            leak_ok: false,
            pristine: [case.h("cap") == 0, case.h("b_cap") == 0],
            lawful: case.h("chaos") == 0,
        }
    }

    fn gen(&mut self) -> u32 {
        self.next_gen += 1;
        self.next_gen
    }
    fn kid(&self, a: u64) -> u32 {
        (a % self.universe as u64) as u32
    }
    fn fresh_id(&mut self) -> u32 {
        self.next_fresh += 1;
        1_000_000 + self.next_fresh
    }
    fn mpos(model: &[(u32, u32)], id: u32) -> Option<usize> {
        model.iter().position(|e| e.0 == id)
    }
    pub fn dump_of(s: &Set<K>) -> Dump {
        conv_dump(s.verif_dump())
    }
    fn ids(model: &[(u32, u32)]) -> BTreeSet<u32> {
        model.iter().map(|e| e.0).collect()
    }

    fn insert(&mut self, si: usize, id: u32) -> Result<(), Bad> {
        let g = self.gen();
        let s = &mut self.slots[si];
        let present = Self::mpos(&s.model, id).is_some();
        let r = s.set.insert(K::new(id, g));
        if r == present {
            bad!("C07", "insert-return", "insert({id}) returned {r}, element present before: {present}");
        }
        if !present {
            s.model.push((id, g));
        }
        Ok(())
    }

    fn remove(&mut self, si: usize, id: u32, variant: u64) -> Result<(), Bad> {
        let s = &mut self.slots[si];
        let want = Self::mpos(&s.model, id).map(|i| s.model.remove(i));
        match variant % 3 {
            0 => {
                let r = s.set.remove(&K::new(id, 0));
                if r != want.is_some() {
                    bad!("C07", "remove-return", "remove({id}) returned {r}, model {:?}", want);
                }
            }
            1 => {
                let r = s.set.take(&KeyRef(id));
                match (&r, &want) {
                    (Some(k), Some(w)) => {
                        k.check("take result");
                        if k.id() != id || k.gen() != w.1 {
                            bad!("C07", "take-wrong-element", "take({id}) returned ({}, gen {}) model {:?}", k.id(), k.gen(), w);
                        }
                    }
                    (None, None) => {}
                    _ => bad!("C07", "take-presence", "take({id}) returned Some={} model {:?}", r.is_some(), want),
                }
            }
            _ => {
                let r = s.set.remove(&KeyRef(id));
                if r != want.is_some() {
                    bad!("C07", "remove-return", "remove({id}) via KeyRef returned {r}, model {:?}", want);
                }
            }
        }
        if want.is_some() {
            self.labels |= dump::L_REMOVE_PRESENT;
        }
        Ok(())
    }

    pub fn exec(&mut self, op: &Op) -> Result<(), Bad> {
        let a = op.a;
        if self.slots[self.cur].model.len() > self.case.h_or("size_cap", 3000) as usize && matches!(op.code, ops::FILL_TO_CAPACITY | ops::RESERVE | ops::INSERT_RANGE | ops::EXTEND) {
            return Ok(());
        }
        let cur = self.cur;
        match op.code {
            ops::INSERT => {
                let k = self.kid(a[0]);
                self.insert(cur, k)?;
            }
            ops::INSERT_RANGE => {
                for i in 0..(a[1] % 25) {
                    let k = self.kid(a[0] + i);
                    self.insert(cur, k)?;
                }
            }
            ops::REPLACE => {
                let k = self.kid(a[0]);
                let g = self.gen();
                let s = &mut self.slots[cur];
                let r = s.set.replace(K::new(k, g));
                match (r, Self::mpos(&s.model, k)) {
                    (Some(old), Some(i)) => {
                        old.check("replace: old element");
                        if old.gen() != s.model[i].1 {
                            bad!("C07", "replace-old", "replace({k}) returned gen {} model {}", old.gen(), s.model[i].1);
                        }
                        s.model[i].1 = g;
                    }
                    (None, None) => s.model.push((k, g)),
                    (r, p) => bad!("C07", "replace-presence", "replace({k}) returned Some={} model present={}", r.is_some(), p.is_some()),
                }
            }
            ops::REMOVE => {
                let k = self.kid(a[0]);
                self.remove(cur, k, a[1])?;
            }
            ops::GET_OR_INSERT => {
                let k = self.kid(a[0]);
                let g = self.gen();
                let s = &mut self.slots[cur];
                let r = s.set.get_or_insert(K::new(k, g));
                r.check("get_or_insert result");
                let want_gen = match Self::mpos(&s.model, k) {
                    Some(i) => s.model[i].1,
                    None => {
                        s.model.push((k, g));
                        g
                    }
                };
                if r.id() != k || r.gen() != want_gen {
                    bad!("C07", "get_or_insert", "get_or_insert({k}) gave ({}, gen {}) want gen {want_gen}", r.id(), r.gen());
                }
            }
            ops::GET_OR_INSERT_WITH => {
                let k = self.kid(a[0]);
                let g = self.gen();
                let lie = a[1] % 2 == 1;
                let s = &mut self.slots[cur];
                let present = Self::mpos(&s.model, k);
                let set = &mut s.set;
                let r = catch_unwind(AssertUnwindSafe(|| {
                    let r = set.get_or_insert_with(&KeyRef(k), |q| {
                        world::callback(Class::Closure);
                        if lie {
                            K::new(q.0.wrapping_add(1), g)
                        } else {
                            K::new(q.0, g)
                        }
                    });
                    r.check("get_or_insert_with result");
                    (r.id(), r.gen())
                }));
                match r {
                    Ok((rid, rgen)) => {
                        if lie && present.is_none() {
                            bad!("C07", "get_or_insert_with-stored-non-equivalent", "get_or_insert_with({k}) accepted a value that is not equivalent to the probe");
                        }
                        let want_gen = match present {
                            Some(i) => s.model[i].1,
                            None => {
                                s.model.push((k, g));
                                g
                            }
                        };
                        if rid != k || rgen != want_gen {
                            bad!("C07", "get_or_insert_with", "get_or_insert_with({k}) gave ({rid}, gen {rgen}) want gen {want_gen}");
                        }
                    }
                    Err(p) => {
                        if p.downcast_ref::<Injected>().is_some() {
                            std::panic::resume_unwind(p);
                        }
                        drop(p);
                        world::clear_panic_messages();
                        if !(lie && present.is_none()) {
                            bad!("C07", "get_or_insert_with-spurious-panic", "get_or_insert_with({k}) panicked (lie={lie}, present={})", present.is_some());
                        }
                        self.labels |= dump::L_X1;
                        // the set must be unchanged: the step monitor compares contents with the model
                    }
                }
            }
            ops::GET => {
                let k = self.kid(a[0]);
                self.lookup(cur, k)?;
            }
            ops::ENTRY => self.entry_op(a[0], a[1] % 8)?,
            ops::SWAP => self.cur ^= 1,
            ops::ALGEBRA => self.algebra_op(a[0] % 4, a[1] % 2 == 1, a[2] % 4, a[3])?,
            ops::PREDICATES => self.predicates_op()?,
            ops::OPERATORS => self.operators_op(a[0] % 4, a[1] % 2 == 1)?,
            ops::ASSIGN => self.assign_op(a[0] % 4)?,
            ops::EXTEND => {
                let n = a[1] % 25;
                let mut items = Vec::new();
                let mut expect = Vec::new();
                for i in 0..n {
                    let k = self.kid(a[0] + i);
                    let g = self.gen();
                    items.push(K::new(k, g));
                    expect.push((k, g));
                }
                let s = &mut self.slots[cur];
                // plain (Copy) elements: odd start keys go through `Extend<&T>`
                if !(a[0] & 1 == 1 && extend_by_ref(&mut s.set, &items)) {
                    s.set.extend(items);
                }
                for (k, g) in expect {
                    if Self::mpos(&s.model, k).is_none() {
                        s.model.push((k, g));
                    }
                }
            }
            ops::RETAIN => {
                let (salt, pct) = (a[0], a[1] % 101);
                let s = &mut self.slots[cur];
                let mut seen = Vec::new();
                s.set.retain(|k| {
                    world::callback(Class::Closure);
                    k.check("retain element");
                    seen.push(k.id());
                    keep(k.id(), salt, pct)
                });
                seen.sort_unstable();
                let mut want: Vec<u32> = s.model.iter().map(|e| e.0).collect();
                want.sort_unstable();
                if seen != want {
                    bad!("C10", "retain-predicate-calls", "set retain saw {:?}, contents {:?}", seen, want);
                }
                s.model.retain(|e| keep(e.0, salt, pct));
            }
            ops::EXTRACT_IF => {
                let (salt, pct) = (a[0], a[1] % 101);
                let s = &mut self.slots[cur];
                let selected = s.model.iter().filter(|e| !keep(e.0, salt, pct)).count();
                let take = frac_to(a[2], selected + 1);
                if selected > 0 && selected < s.model.len() && take > 0 && take < selected {
                    self.labels |= dump::L_EXTRACT_CUT;
                }
                let mut visited = Vec::new();
                let mut yielded = Vec::new();
                {
                    let mut ex = s.set.extract_if(|k| {
                        world::callback(Class::Closure);
                        visited.push(k.id());
                        !keep(k.id(), salt, pct)
                    });
                    for _ in 0..take {
                        match ex.next() {
                            Some(k) => {
                                k.check("extract_if yielded");
                                yielded.push(k.id());
                            }
                            None => break,
                        }
                    }
                }
                let want: Vec<u32> = visited.iter().copied().filter(|id| !keep(*id, salt, pct)).collect();
                if want != yielded {
                    bad!("C10", "extract_if-yield", "set extract_if visited {:?}: yielded {:?} want {:?}", visited, yielded, want);
                }
                s.model.retain(|e| !yielded.contains(&e.0));
            }
            ops::DRAIN => {
                let s = &mut self.slots[cur];
                let total = s.model.len();
                let prefix = frac_to(a[0], total);
                // dropped early, or consumed by next / fold / for_each / count
                let cont = if a[1] % 2 == 0 { 5 } else { [0, 1, 2, 4][((a[0] >> 3) % 4) as usize] };
                if prefix > 0 && prefix < total && cont == 5 {
                    self.labels |= dump::L_DRAIN_CUT;
                }
                let size_before = s.set.allocation_size();
                let want: Vec<(u64, u64)> = s.model.iter().map(|e| (e.0 as u64, e.1 as u64)).collect();
                s.model.clear();
                let (got, c) = drive_iter(s.set.drain(), total, prefix, cont, None, "set drain", |k| {
                    k.check("drain element");
                    (k.id() as u64, k.gen() as u64)
                })?;
                compare_yield(got, want, c, "set drain").map_err(|b| ("C10", b.1, b.2))?;
                if !s.set.is_empty() || s.set.allocation_size() != size_before {
                    bad!("C10", "drain-state", "after drain: len {} allocation {} -> {}", s.set.len(), size_before, s.set.allocation_size());
                }
            }
            ops::CLEAR => {
                let s = &mut self.slots[cur];
                s.set.clear();
                s.model.clear();
            }
            ops::SHRINK_TO_FIT => self.slots[cur].set.shrink_to_fit(),
            ops::RESERVE => {
                let n = (a[0] % 97) as usize;
                let s = &mut self.slots[cur];
                s.set.reserve(n);
                if s.set.capacity() < s.set.len() + n {
                    bad!("C08", "reserve-capacity", "set reserve({n}): capacity {} < len {} + {n}", s.set.capacity(), s.set.len());
                }
            }
            ops::ITER => {
                let s = &mut self.slots[cur];
                let total = s.model.len();
                let prefix = frac_to(a[1], total);
                let want: Vec<(u64, u64)> = s.model.iter().map(|e| (e.0 as u64, e.1 as u64)).collect();
                if prefix > 0 && prefix < total {
                    if a[0] % 2 == 0 && matches!(a[2] % 6, 1 | 3) {
                        self.labels |= dump::L_ITER_CUT;
                    } else if a[0] % 2 == 1 && a[2] % 6 == 5 {
                        self.labels |= dump::L_INTOITER_CUT;
                    }
                }
                if a[0] % 2 == 0 {
                    let cont = if a[2] % 6 == 5 { 0 } else { a[2] % 6 };
                    let it = if a[1] & 1 == 1 { (&s.set).into_iter() } else { s.set.iter() };
                    let (got, c) = drive_iter(it, total, prefix, cont, Some(&|i: &hb::hash_set::Iter<'_, K>| i.clone()), "set iter", |k| {
                        k.check("set iter element");
                        (k.id() as u64, k.gen() as u64)
                    })?;
                    compare_yield(got, want, c, "set iter")?;
                    let d = hb::hash_set::Iter::<K>::default();
                    if d.len() != 0 || d.clone().next().is_some() {
                        bad!("C09", "default-iter-not-empty", "hash_set::Iter::default() is not empty");
                    }
                } else {
                    s.model.clear();
                    let old = std::mem::replace(&mut s.set, Set::with_hasher_in(PlanBuildHasher::new(s.plan), CheckAlloc));
                    let (got, c) = drive_iter(old.into_iter(), total, prefix, a[2] % 6, None, "set into_iter", |k| {
                        k.check("set into_iter element");
                        (k.id() as u64, k.gen() as u64)
                    })?;
                    compare_yield(got, want, c, "set into_iter")?;
                    let mut d = hb::hash_set::IntoIter::<K, CheckAlloc>::default();
                    if d.len() != 0 || d.next().is_some() {
                        bad!("C09", "default-iter-not-empty", "hash_set::IntoIter::default() is not empty");
                    }
                }
            }
            ops::FILL_TO_CAPACITY => {
                let room = {
                    let s = &self.slots[cur];
                    (s.set.capacity() - s.set.len()).min(2048)
                };
                let st0 = alloc::stats();
                for _ in 0..room {
                    let id = self.fresh_id();
                    self.insert(cur, id)?;
                }
                let st = alloc::stats();
                if st.n_alloc != st0.n_alloc {
                    bad!("C08", "insert-within-capacity-allocated", "set: inserting capacity()-len() fresh elements called the allocator");
                }
            }
            ops::REMOVE_RUN => {
                let s = &self.slots[cur];
                let d = Self::dump_of(&s.set);
                if !d.is_singleton {
                    let start = frac_index(a[0], d.buckets());
                    let mut ids = Vec::new();
                    for j in 0..d.buckets() {
                        if ids.len() >= (a[1] % 41) as usize {
                            break;
                        }
                        if let Some(k) = s.set.verif_bucket((start + j) & d.bucket_mask) {
                            ids.push(k.id());
                        }
                    }
                    for id in ids {
                        self.remove(cur, id, 0)?;
                    }
                }
            }
            ops::CLONE => {
                let (lo, hi) = self.slots.split_at_mut(1);
                let (a_, b_) = if cur == 0 { (&mut lo[0], &mut hi[0]) } else { (&mut hi[0], &mut lo[0]) };
                if a[0] % 2 == 0 {
                    b_.set = a_.set.clone();
                } else {
                    let (dd, sd) = (Self::dump_of(&b_.set), Self::dump_of(&a_.set));
                    if dd.bucket_mask != sd.bucket_mask || dd.n_deleted() > 0 {
                        self.labels |= dump::L_CLONE_FROM_DIFF;
                    }
                    b_.set.clone_from(&a_.set);
                }
                b_.model = a_.model.clone();
                b_.plan = a_.plan;
                let _q = Quiet::new();
                if !(a_.set == b_.set) || !(b_.set == a_.set) {
                    bad!("C11", "clone-not-equal", "HashSet clone{} does not compare equal to its source", if a[0] % 2 == 0 { "" } else { "_from" });
                }
                for (id, g) in &b_.model {
                    match b_.set.get(&KeyRef(*id)) {
                        Some(k) if k.gen() == *g => {}
                        _ => bad!("C11", "clone-lookup-fails", "HashSet clone{}: element {id} of the source is not found in the clone", if a[0] % 2 == 0 { "" } else { "_from" }),
                    }
                }
                if K::TRACKED {
                    let sx: Vec<Option<u64>> = b_.set.iter().map(|e| e.serial()).collect();
                    if a_.set.iter().any(|e| sx.contains(&e.serial())) {
                        bad!("C11", "clone-shares-elements", "HashSet clone holds the same element objects as its source");
                    }
                }
            }
            ops::MIRROR => {
                // same elements into the other set through its own history
                let other = cur ^ 1;
                let ids: Vec<u32> = self.slots[cur].model.iter().map(|e| e.0).collect();
                while let Some(id) = self.slots[other].model.first().map(|e| e.0) {
                    self.remove(other, id, 0)?;
                }
                for id in ids.into_iter().rev() {
                    self.insert(other, id)?;
                }
                // optionally perturb by one element
                if a[0] % 3 == 1 {
                    let id = self.kid(a[0] >> 2);
                    if Self::mpos(&self.slots[other].model, id).is_some() {
                        self.remove(other, id, 0)?;
                    } else {
                        self.insert(other, id)?;
                    }
                }
                self.predicates_op()?;
            }
            ops::REBUILD => {
                let s = &mut self.slots[cur];
                world::with(|w| w.default_plan = s.plan);
                let old = std::mem::replace(&mut s.set, Set::with_hasher_in(PlanBuildHasher::new(s.plan), CheckAlloc));
                if s.model.len() % 2 == 0 {
                    s.set = old.into_iter().collect();
                } else {
                    // through a HashMap<T, ()> and `From<HashMap<T, (), S, A>> for HashSet`
                    let mut m: hb::HashMap<K, (), PlanBuildHasher, CheckAlloc> = hb::HashMap::with_hasher_in(PlanBuildHasher::new(s.plan), CheckAlloc);
                    for k in old {
                        m.insert(k, ());
                    }
                    s.set = Set::from(m);
                }
                let sample: Vec<u32> = s.model.iter().take(2).map(|e| e.0).collect();
                Self::from_array_check(&sample)?;
            }
            _ => {}
        }
        Ok(())
    }

    /// Operations that cannot hand a set an element or a capacity keep it `pristine`; see the map
    /// interpreter. `cur` is the slot the operation ran on.
    fn track_pristine(&mut self, op: &Op, cur: usize, other_was_empty: bool, cur_was_empty: bool) {
        let other = cur ^ 1;
        let a = op.a;
        match op.code {
            ops::REMOVE | ops::GET | ops::SWAP | ops::ALGEBRA | ops::PREDICATES | ops::OPERATORS | ops::RETAIN | ops::EXTRACT_IF | ops::DRAIN | ops::CLEAR
            | ops::SHRINK_TO_FIT | ops::REMOVE_RUN | ops::FILL_TO_CAPACITY => {}
            ops::EXTEND if a[1] % 25 == 0 => {}
            ops::INSERT_RANGE if a[1] % 25 == 0 => {}
            ops::RESERVE if a[0] % 97 == 0 => {}
            // into_iter replaces the set by a new, never-used one
            ops::ITER => {
                if a[0] % 2 == 1 {
                    self.pristine[cur] = true;
                }
            }
            // collect() of no elements
            ops::REBUILD => self.pristine[cur] = cur_was_empty,
            // |= and ^= insert clones of the other set's elements, &= and -= only remove
            ops::ASSIGN => {
                if matches!(a[0] % 4, 0 | 3) && !other_was_empty {
                    self.pristine[cur] = false;
                }
            }
            ops::CLONE => self.pristine[other] = if a[0] % 2 == 0 { self.pristine[cur] } else { self.pristine[other] && self.pristine[cur] },
            ops::MIRROR => self.pristine[other] = false,
            _ => self.pristine[cur] = false,
        }
    }

    /// `From<[T; N]>` for N = 0, 1, 3 (with a repeated element: the first one stays).
    fn from_array_check(sample: &[u32]) -> Result<(), Bad> {
        type DSet = hb::HashSet<ArrKey, hb::DefaultHashBuilder, CheckAlloc>;
        let e: DSet = DSet::from([]);
        if e.len() != 0 || e.iter().next().is_some() {
            bad!("C07", "from-array", "HashSet::from([]) is not empty");
        }
        if e.allocation_size() != 0 {
            bad!("C03", "unallocated-collection-owns-block", "HashSet::from([]) owns a block");
        }
        if let Some(&id) = sample.first() {
            let id2 = sample.get(1).copied().unwrap_or(id.wrapping_add(1_000_000));
            let three: DSet = DSet::from([ArrKey { id, tag: 1 }, ArrKey { id: id2, tag: 2 }, ArrKey { id, tag: 3 }]);
            let g0 = three.get(&ArrKey { id, tag: 0 }).map(|k| k.tag);
            if three.len() != 2 || g0 != Some(1) || !three.contains(&ArrKey { id: id2, tag: 0 }) {
                bad!("C07", "from-array", "HashSet::from of three elements with a repeated one: len {} stored tag {:?}", three.len(), g0);
            }
        }
        Ok(())
    }

    fn lookup(&self, si: usize, k: u32) -> Result<(), Bad> {
        let s = &self.slots[si];
        let want = Self::mpos(&s.model, k).map(|i| s.model[i]);
        let c1 = s.set.contains(&K::new(k, 0));
        let c2 = s.set.contains(&KeyRef(k));
        let g = s.set.get(&KeyRef(k));
        if let Some(e) = g {
            e.check("set get");
        }
        if c1 != want.is_some() || c2 != want.is_some() || g.is_some() != want.is_some() {
            bad!("C07", "contains", "contains({k}) = {c1}/{c2}, get Some={} model {:?}", g.is_some(), want);
        }
        if let (Some(e), Some(w)) = (g, want) {
            if e.id() != k || e.gen() != w.1 {
                bad!("C07", "get-wrong-element", "get({k}) returned ({}, gen {}) model {:?}", e.id(), e.gen(), w);
            }
        }
        Ok(())
    }

    fn entry_op(&mut self, key: u64, act: u64) -> Result<(), Bad> {
        use hb::hash_set::Entry;
        let k = self.kid(key);
        let g = self.gen();
        let s = &mut self.slots[self.cur];
        let pre = Self::dump_of(&s.set);
        if !pre.is_singleton && pre.growth_left == 0 {
            self.labels |= dump::L_ENTRY_AT_FULL;
        }
        let present = Self::mpos(&s.model, k);
        let e = s.set.entry(K::new(k, g));
        match (&e, present) {
            (Entry::Occupied(o), Some(i)) => {
                o.get().check("set entry occupied");
                if o.get().gen() != s.model[i].1 {
                    bad!("C14", "set-entry-occupied", "entry({k}) holds gen {} model {}", o.get().gen(), s.model[i].1);
                }
            }
            (Entry::Vacant(v), None) => {
                if v.get().id() != k || v.get().gen() != g {
                    bad!("C14", "set-entry-vacant", "vacant entry value ({}, gen {})", v.get().id(), v.get().gen());
                }
            }
            (Entry::Occupied(_), None) => bad!("C14", "entry-discriminant", "HashSet::entry({k}) is Occupied, element absent"),
            (Entry::Vacant(_), Some(_)) => bad!("C14", "entry-discriminant", "HashSet::entry({k}) is Vacant, element present"),
        }
        let model = &mut s.model;
        match act {
            0 => {
                let o = e.insert();
                let want = match present {
                    Some(i) => model[i].1,
                    None => {
                        model.push((k, g));
                        g
                    }
                };
                if o.get().gen() != want {
                    bad!("C14", "set-entry-insert", "Entry::insert holds gen {} want {want}", o.get().gen());
                }
            }
            1 => {
                e.or_insert();
                if present.is_none() {
                    model.push((k, g));
                }
            }
            2 => {
                let _ = e.get();
            }
            _ => match e {
                Entry::Occupied(o) => {
                    let i = present.unwrap();
                    if act % 2 == 1 {
                        let old = o.remove();
                        old.check("set occupied remove");
                        if old.gen() != model[i].1 {
                            bad!("C14", "set-entry-remove", "remove returned gen {} model {}", old.gen(), model[i].1);
                        }
                        model.remove(i);
                    } else {
                        let _ = o.get();
                    }
                }
                Entry::Vacant(v) => match act {
                    3 | 4 => {
                        let o = v.insert();
                        if o.get().gen() != g {
                            bad!("C14", "set-entry-vacant-insert", "insert holds gen {}", o.get().gen());
                        }
                        model.push((k, g));
                    }
                    5 => {
                        let val = v.into_value();
                        if val.gen() != g {
                            bad!("C14", "set-entry-into_value", "into_value gen {}", val.gen());
                        }
                    }
                    _ => drop(v),
                },
            },
        }
        Ok(())
    }

    /// Drive a set-algebra iterator: collect ids while checking size_hint bounds.
    fn drive_algebra<'x, I>(mut it: I, truth_len: usize, mode: u64, what: &str) -> Result<Vec<u32>, Bad>
    where
        I: Iterator<Item = &'x K> + Clone,
        K: 'x,
    {
        let mut out = Vec::new();
        let mut check = |it: &I, yielded: usize| -> Result<(), Bad> {
            let (lo, hi) = it.size_hint();
            let remaining = truth_len.saturating_sub(yielded);
            if lo > remaining || hi.map_or(false, |h| h < remaining) {
                bad!("C07", "size_hint-bounds", "{what}: size_hint ({lo}, {:?}) but {remaining} elements remain", hi);
            }
            Ok(())
        };
        check(&it, 0)?;
        match mode {
            1 => {
                let v = it.fold(Vec::new(), |mut acc, k| {
                    k.check(what);
                    acc.push(k.id());
                    acc
                });
                out = v;
            }
            2 => {
                // clone half-way, both must finish with the same multiset
                let half = truth_len / 2;
                for _ in 0..half {
                    match it.next() {
                        Some(k) => out.push(k.id()),
                        None => break,
                    }
                }
                let it2 = it.clone();
                let mut rest1: Vec<u32> = it.map(|k| k.id()).collect();
                let mut rest2: Vec<u32> = it2.map(|k| k.id()).collect();
                out.extend(rest1.iter().copied());
                rest1.sort_unstable();
                rest2.sort_unstable();
                if rest1 != rest2 {
                    bad!("C07", "clone-differs", "{what}: cloned iterator yields {:?}, original {:?}", rest2, rest1);
                }
            }
            3 => {
                // a third by next(), then the specialised fold for the rest
                for _ in 0..truth_len / 3 + 1 {
                    match it.next() {
                        Some(k) => out.push(k.id()),
                        None => break,
                    }
                }
                check(&it, out.len())?;
                let rest = it.fold(Vec::new(), |mut acc, k| {
                    k.check(what);
                    acc.push(k.id());
                    acc
                });
                out.extend(rest);
            }
            _ => {
                while let Some(k) = it.next() {
                    k.check(what);
                    out.push(k.id());
                    if out.len() > truth_len + 8 {
                        bad!("C07", "yields-too-many", "{what}: more than {} elements yielded", truth_len + 8);
                    }
                    check(&it, out.len())?;
                }
                if it.next().is_some() {
                    bad!("C07", "not-fused", "{what}: Some after None");
                }
            }
        }
        Ok(out)
    }

    fn truth(kind: u64, x: &BTreeSet<u32>, y: &BTreeSet<u32>) -> BTreeSet<u32> {
        match kind {
            0 => x.union(y).copied().collect(),
            1 => x.intersection(y).copied().collect(),
            2 => x.difference(y).copied().collect(),
            _ => x.symmetric_difference(y).copied().collect(),
        }
    }

    fn note_pair(&mut self) {
        let a = Self::ids(&self.slots[0].model);
        let b = Self::ids(&self.slots[1].model);
        if !a.is_empty() && !b.is_empty() && !a.is_subset(&b) && !b.is_subset(&a) {
            self.labels |= dump::L_X2;
        }
        if a.len() == b.len() && !a.is_empty() {
            self.labels |= dump::L_X3;
        }
    }

    fn algebra_op(&mut self, kind: u64, swap: bool, mode: u64, _x: u64) -> Result<(), Bad> {
        self.note_pair();
        let (xi, mut yi) = if swap { (self.cur ^ 1, self.cur) } else { (self.cur, self.cur ^ 1) };
        if _x % 8 == 7 {
            // both operands are the same object
            yi = xi;
        }
        let x = &self.slots[xi];
        let y = &self.slots[yi];
        let want = Self::truth(kind, &Self::ids(&x.model), &Self::ids(&y.model));
        let names = ["union", "intersection", "difference", "symmetric_difference"];
        let what = names[kind as usize];
        let got = match kind {
            0 => Self::drive_algebra(x.set.union(&y.set), want.len(), mode, what)?,
            1 => Self::drive_algebra(x.set.intersection(&y.set), want.len(), mode, what)?,
            2 => Self::drive_algebra(x.set.difference(&y.set), want.len(), mode, what)?,
            _ => Self::drive_algebra(x.set.symmetric_difference(&y.set), want.len(), mode, what)?,
        };
        let mut g = got.clone();
        g.sort_unstable();
        let w: Vec<u32> = want.iter().copied().collect();
        if g != w {
            bad!("C07", "algebra-result", "{what}: yielded {:?} (sorted), mathematical result {:?}", &g[..g.len().min(16)], &w[..w.len().min(16)]);
        }
        Ok(())
    }

    fn predicates_op(&mut self) -> Result<(), Bad> {
        self.note_pair();
        let a = &self.slots[0];
        let b = &self.slots[1];
        let (ma, mb) = (Self::ids(&a.model), Self::ids(&b.model));
        if ma == mb && !ma.is_empty() && a.plan != b.plan {
            self.labels |= dump::L_EQ_DIFF_HISTORY;
        }
        let eq_prop = if self.case.h("prop") == 11 { "C11" } else { "C07" };
        let _q = Quiet::new();
        let checks: [(&str, bool, bool); 8] = [
            ("a.is_subset(b)", a.set.is_subset(&b.set), ma.is_subset(&mb)),
            ("b.is_subset(a)", b.set.is_subset(&a.set), mb.is_subset(&ma)),
            ("a.is_superset(b)", a.set.is_superset(&b.set), ma.is_superset(&mb)),
            ("b.is_superset(a)", b.set.is_superset(&a.set), mb.is_superset(&ma)),
            ("a.is_disjoint(b)", a.set.is_disjoint(&b.set), ma.is_disjoint(&mb)),
            ("b.is_disjoint(a)", b.set.is_disjoint(&a.set), mb.is_disjoint(&ma)),
            ("a == b", a.set == b.set, ma == mb),
            ("b == a", b.set == a.set, mb == ma),
        ];
        // each set with itself (the same object on both sides)
        let self_checks: [(&str, bool, bool); 8] = [
            ("a.is_subset(a)", a.set.is_subset(&a.set), true),
            ("a.is_superset(a)", a.set.is_superset(&a.set), true),
            ("a.is_disjoint(a)", a.set.is_disjoint(&a.set), ma.is_empty()),
            ("a == a", a.set == a.set, true),
            ("b.is_subset(b)", b.set.is_subset(&b.set), true),
            ("b.is_superset(b)", b.set.is_superset(&b.set), true),
            ("b.is_disjoint(b)", b.set.is_disjoint(&b.set), mb.is_empty()),
            ("b == b", b.set == b.set, true),
        ];
        for (name, got, want) in checks.into_iter().chain(self_checks) {
            if got != want {
                bad!(if name.contains("==") { eq_prop } else { "C07" }, "predicate", "{name} = {got}, mathematically {want} (|a| = {}, |b| = {})", ma.len(), mb.len());
            }
        }
        Ok(())
    }

    fn operators_op(&mut self, kind: u64, swap: bool) -> Result<(), Bad>
    where
        K: Clone,
    {
        self.note_pair();
        let (xi, mut yi) = if swap { (self.cur ^ 1, self.cur) } else { (self.cur, self.cur ^ 1) };
        if (self.next_gen as u64 + kind) % 7 == 0 {
            // `&a op &a`
            yi = xi;
        }
        let x = &self.slots[xi];
        let y = &self.slots[yi];
        world::with(|w| w.default_plan = x.plan);
        let want = Self::truth(kind, &Self::ids(&x.model), &Self::ids(&y.model));
        let r: Set<K> = match kind {
            0 => &x.set | &y.set,
            1 => &x.set & &y.set,
            2 => &x.set - &y.set,
            _ => &x.set ^ &y.set,
        };
        if want.is_empty() && x.model.is_empty() && y.model.is_empty() && !Self::dump_of(&r).is_singleton {
            bad!("C03", "unallocated-collection-owns-block", "operator kind {kind} on two empty sets returned a set that owns a block");
        }
        let mut got: Vec<u32> = r.iter().map(|k| k.id()).collect();
        got.sort_unstable();
        let w: Vec<u32> = want.iter().copied().collect();
        if got != w || r.len() != w.len() {
            bad!("C07", "operator-result", "operator kind {kind}: {:?} vs mathematical {:?}", &got[..got.len().min(16)], &w[..w.len().min(16)]);
        }
        Ok(())
    }

    fn assign_op(&mut self, kind: u64) -> Result<(), Bad>
    where
        K: Clone,
    {
        self.note_pair();
        let cur = self.cur;
        let (lo, hi) = self.slots.split_at_mut(1);
        let (x, y) = if cur == 0 { (&mut lo[0], &hi[0]) } else { (&mut hi[0], &lo[0]) };
        let (mx, my) = (Self::ids(&x.model), Self::ids(&y.model));
        if kind == 2 && my.len() < mx.len() {
            self.labels |= dump::L_X1;
        }
        let want = Self::truth(kind, &mx, &my);
        match kind {
            0 => x.set |= &y.set,
            1 => x.set &= &y.set,
            2 => x.set -= &y.set,
            _ => x.set ^= &y.set,
        }
        // model: keep gens of survivors, new elements are clones of y's (same gen)
        let mut nm = Vec::new();
        for id in &want {
            if let Some(i) = Self::mpos(&x.model, *id) {
                nm.push(x.model[i]);
            } else if let Some(i) = Self::mpos(&y.model, *id) {
                nm.push(y.model[i]);
            }
        }
        x.model = nm;
        Ok(())
    }

    // -----------------------------------------------------------------------------------------

    pub fn check_state(&mut self) -> Result<(), Bad> {
        if let Some(v) = world::take_violation() {
            return Err((v.property, Box::leak(v.kind.into_boxed_str()), v.detail));
        }
        let mut blocks = 0;
        let _q = Quiet::new();
        for (si, s) in self.slots.iter().enumerate() {
            let d = Self::dump_of(&s.set);
            d.validate(true)?;
            if !d.is_singleton {
                blocks += 1;
                if self.pristine[si] {
                    bad!("C03", "unallocated-collection-owns-block", "a set that was never given an element or a capacity owns a block of {} buckets", d.buckets());
                }
            }
            for i in d.full_indices() {
                let Some(k) = s.set.verif_bucket(i) else {
                    bad!("C02", "full-slot-without-element", "slot {i}");
                };
                k.check("stored element");
                if self.lawful {
                    d.check_slot(i, s.plan.hash(k.id() as u64)).map_err(|b| ("C07", b.1, b.2))?;
                }
            }
            let mut got: Vec<(u32, u32)> = s.set.iter().map(|k| (k.id(), k.gen())).collect();
            if got.len() != s.set.len() {
                bad!(if self.lawful { "C09" } else { "C05" }, "len-vs-iter", "len() {} but iter() yields {}", s.set.len(), got.len());
            }
            if !self.lawful {
                continue;
            }
            got.sort_unstable();
            let mut want = s.model.clone();
            want.sort_unstable();
            if got != want {
                let extra: Vec<_> = got.iter().filter(|g| !want.contains(g)).take(4).collect();
                let missing: Vec<_> = want.iter().filter(|w| !got.contains(w)).take(4).collect();
                bad!("C07", "contents-differ", "set holds {} elements, model {}; not in model {:?}; missing {:?} (id, gen)", got.len(), want.len(), extra, missing);
            }
            if s.set.len() != s.model.len() {
                bad!("C07", "len", "len() {} model {}", s.set.len(), s.model.len());
            }
        }
        let st = alloc::stats();
        if st.n_live != blocks && !self.leak_ok {
            bad!("C03", "block-accounting", "ledger holds {} blocks, sets own {blocks}", st.n_live);
        }
        alloc::check_zones(false);
        if let Some(v) = world::take_violation() {
            return Err((v.property, Box::leak(v.kind.into_boxed_str()), v.detail));
        }
        Ok(())
    }

    fn to_violation(&self, step: usize, b: Bad) -> Violation {
        if !self.lawful && b.0 != "C05" {
            return Violation { property: "C05", kind: format!("chaos:{}", b.1), step, detail: b.2 };
        }
        Violation { property: b.0, kind: b.1.to_string(), step, detail: b.2 }
    }

    /// Model := observed contents (after unspecified results under inconsistent Hash / Eq).
    fn resync(&mut self) {
        let _q = Quiet::new();
        for s in self.slots.iter_mut() {
            s.model = s.set.iter().map(|k| (k.id(), k.gen())).collect();
            s.plan = s.set.hasher().plan;
        }
    }

    pub fn step(&mut self, step: usize, op: &Op) -> Result<(), Violation> {
        if self.case.header.get("fault_step").copied() == Some(step as u64) {
            return self.faulted_step(step, op);
        }
        alloc::begin_op();
        let before = Self::dump_of(&self.slots[self.cur].set);
        world::clear_panic_messages();
        let counts0 = world::counts();
        let (cur0, cur_empty, other_empty) = (self.cur, self.slots[self.cur].model.is_empty(), self.slots[self.cur ^ 1].model.is_empty());
        let r = catch_unwind(AssertUnwindSafe(|| self.exec(op)));
        let counts1 = world::counts();
        self.track_pristine(op, cur0, other_empty, cur_empty);
        match r {
            Err(payload) => {
                let msg = world::last_panic_message().unwrap_or_else(|| "<no message>".into());
                drop(payload);
                return Err(Violation { property: if self.lawful { "C02" } else { "C05" }, kind: "unexpected-panic".into(), step, detail: format!("operation panicked: {msg}") });
            }
            Ok(Err(b)) => {
                // inconsistent Hash / Eq answers: results are unspecified, only the safety subset counts
                if self.lawful || matches!(b.0, "C02" | "C03" | "C05" | "C13") {
                    return Err(self.to_violation(step, b));
                }
                self.resync();
            }
            Ok(Ok(())) => {}
        }
        if let Err(b) = self.check_state() {
            return Err(self.to_violation(step, b));
        }
        if !self.lawful {
            self.resync();
        }
        let after = Self::dump_of(&self.slots[self.cur].set);
        let clear_like = matches!(op.code, ops::CLEAR | ops::DRAIN | ops::SWAP | ops::CLONE | ops::REBUILD | ops::ITER | ops::ASSIGN);
        let tl = dump::transition_labels(&before, &after, clear_like);
        self.labels |= tl;
        if self.case.h("trace") != 0 {
            let mut d = [0u64; world::NCLASS];
            for i in 0..world::NCLASS {
                d[i] = counts1[i] - counts0[i];
            }
            self.out.per_step.push((tl, d));
        }
        Ok(())
    }

    /// C04 on the HashSet API: the k-th invocation of a callback class panics during this step.
    /// Oracle as for maps: both sets valid, len() == yielded == found, no foreign element, every
    /// element that left a set was dropped, no block leaked, and a hasher panic while a
    /// single-element operation grows the table leaves the contents unchanged.
    pub fn faulted_step(&mut self, step: usize, op: &Op) -> Result<(), Violation> {
        let class = Class::from_usize(self.case.h("fault_class") as usize).unwrap_or(Class::Hash);
        let k = self.case.h("fault_k");
        let snap = |s: &Set<K>| -> Vec<(u32, u32, Option<u64>)> {
            let _q = Quiet::new();
            let mut v: Vec<(u32, u32, Option<u64>)> = s.iter().map(|e| (e.id(), e.gen(), e.serial())).collect();
            v.sort_unstable();
            v
        };
        let pre: Vec<Vec<(u32, u32, Option<u64>)>> = self.slots.iter().map(|s| snap(&s.set)).collect();
        let pre_dump = Self::dump_of(&self.slots[self.cur].set);
        let cur_before = self.cur;
        let serials_before = world::n_serials();
        let stats_before = alloc::stats();
        alloc::begin_op();
        world::clear_panic_messages();
        if k > 0 {
            world::arm_fault(class, k);
        }
        let (cur_empty, other_empty) = (self.slots[self.cur].model.is_empty(), self.slots[self.cur ^ 1].model.is_empty());
        let r = catch_unwind(AssertUnwindSafe(|| self.exec(op)));
        let fired = world::disarm_fault();
        self.track_pristine(op, cur_before, other_empty, cur_empty);
        let relabel = |v: Violation| Violation { property: "C04", kind: format!("after-panic:{}", v.kind), ..v };
        match r {
            Ok(Ok(())) => {
                return self.check_state().map_err(|b| {
                    let v = self.to_violation(step, b);
                    if fired { relabel(v) } else { v }
                });
            }
            Ok(Err(b)) => {
                let v = self.to_violation(step, b);
                return Err(if fired { relabel(v) } else { v });
            }
            Err(payload) => {
                let injected = payload.downcast_ref::<Injected>().is_some();
                drop(payload);
                if !injected {
                    let msg = world::last_panic_message().unwrap_or_else(|| "<no message>".into());
                    return Err(Violation { property: if fired { "C04" } else { "C02" }, kind: "unexpected-panic".into(), step, detail: format!("HashSet operation panicked with a foreign payload (fault fired: {fired}): {msg}") });
                }
            }
        }
        self.out.count("faults_fired", 1);
        self.labels |= dump::L_FAULT_UNWOUND;
        let st = alloc::stats();
        let grew = st.n_alloc > stats_before.n_alloc;
        if grew {
            self.labels |= dump::L_FAULT_GROWTH;
        }
        if class == Class::Hash && !grew && pre_dump.n_deleted() > 0 && pre_dump.growth_left == 0 {
            self.labels |= dump::L_FAULT_REHASH;
        }
        if class != Class::Hash {
            self.labels |= dump::L_FAULT_OTHER;
        }
        if class.is_drop() {
            self.leak_ok = true;
        }
        self.pristine = [false, false];
        let _q = Quiet::new();
        let mk = |kind: &str, detail: String| Violation { property: "C04", kind: kind.to_string(), step, detail };
        if let Some(v) = world::take_violation() {
            return Err(relabel(v));
        }
        let single_growth = matches!(op.code, ops::INSERT | ops::REPLACE | ops::GET_OR_INSERT | ops::GET_OR_INSERT_WITH | ops::ENTRY | ops::RESERVE | ops::SHRINK_TO_FIT);
        let mut expected_blocks = 0;
        let now_all: Vec<Vec<(u32, u32, Option<u64>)>> = self.slots.iter().map(|s| snap(&s.set)).collect();
        for si in 0..self.slots.len() {
            let s = &mut self.slots[si];
            let d = Self::dump_of(&s.set);
            if let Err(b) = d.validate(true) {
                return Err(mk(&format!("after-panic:{}", b.1), format!("HashSet, class {:?} k {k}: {}", class, b.2)));
            }
            if !d.is_singleton {
                expected_blocks += 1;
            }
            let now = &now_all[si];
            if now.len() != s.set.len() {
                return Err(mk("after-panic:len-vs-iter", format!("len() {} but iter() yields {}", s.set.len(), now.len())));
            }
            for e in now {
                match s.set.get(&KeyRef(e.0)) {
                    Some(kk) if kk.gen() == e.1 => kk.check("post-panic element"),
                    _ => return Err(mk("after-panic:yielded-element-not-found", format!("iter() yields element {} (gen {}) that get() does not find", e.0, e.1))),
                }
            }
            if K::TRACKED {
                for e in now {
                    let known = pre.iter().any(|p| p.iter().any(|b| b.2 == e.2)) || e.2.map_or(false, |x| x >= serials_before);
                    if !known {
                        return Err(mk("after-panic:foreign-element", format!("element ({}, gen {}) is neither pre-existing nor handed in by this operation", e.0, e.1)));
                    }
                }
            }
            if class == Class::Hash && grew && si == cur_before && single_growth && *now != pre[si] {
                return Err(mk("hash-panic-during-growth-changed-contents", format!("{} elements before, {} after a hasher panic while growing into a new allocation", pre[si].len(), now.len())));
            }
            s.model = now.iter().map(|e| (e.0, e.1)).collect();
            s.plan = s.set.hasher().plan;
        }
        if K::TRACKED && !class.is_drop() {
            for p in &pre {
                for b in p {
                    if let Some(ser) = b.2 {
                        let still = now_all.iter().any(|n| n.iter().any(|e| e.2 == Some(ser)));
                        if !still && world::elem_state(ser) == Some(world::ElemState::Live) {
                            return Err(mk("after-panic:element-lost-not-dropped", format!("element {} (gen {}, serial {ser}) left its set but was never dropped", b.0, b.1)));
                        }
                    }
                }
            }
        }
        if !class.is_drop() && st.n_live != expected_blocks {
            return Err(mk("after-panic:block-leaked", format!("ledger holds {} blocks, the sets own {expected_blocks} (class {:?})", st.n_live, class)));
        }
        alloc::check_zones(false);
        if let Some(v) = world::take_violation() {
            return Err(relabel(v));
        }
        Ok(())
    }

    pub fn finish(mut self, step: usize) -> (Outcome, Option<Violation>) {
        let labels = self.labels;
        let mut out = std::mem::take(&mut self.out);
        out.labels = labels;
        let slots = std::mem::take(&mut self.slots);
        let r = catch_unwind(AssertUnwindSafe(move || drop(slots)));
        if let Err(p) = r {
            drop(p);
            let msg = world::last_panic_message().unwrap_or_default();
            return (out, Some(Violation { property: "C02", kind: "unexpected-panic".into(), step, detail: format!("dropping the sets panicked: {msg}") }));
        }
        alloc::check_zones(true);
        if let Some(v) = world::take_violation() {
            return (out, Some(v));
        }
        let st = alloc::stats();
        if self.leak_ok {
            return (out, None);
        }
        if st.n_live != 0 {
            return (out, Some(Violation { property: "C03", kind: "block-leaked".into(), step, detail: format!("{} blocks still allocated after the sets were dropped", st.n_live) }));
        }
        let live = world::with(|w| w.live_elems);
        if live != 0 {
            return (out, Some(Violation { property: "C03", kind: "element-leaked".into(), step, detail: format!("{live} tracked elements never dropped") }));
        }
        (out, None)
    }
}

pub fn run_case(case: &Case) -> Outcome {
    match case.h("elem") {
        0 => run_typed::<crate::elem::Key>(case),
        _ => run_typed::<crate::elem::PKey>(case),
    }
}

pub fn run_typed<K>(case: &Case) -> Outcome
where
    K: KeyT + for<'a> From<&'a KeyRef>,
    KeyRef: hb::Equivalent<K>,
{
    world::install_panic_hook();
    world::reset();
    let mut it: SInterp<'_, K> = SInterp::new(case);
    let mut violation = None;
    let mut steps = 0;
    for (i, op) in case.ops.iter().enumerate() {
        world::set_step(i);
        steps = i + 1;
        if let Err(v) = it.step(i, op) {
            violation = Some(v);
            break;
        }
    }
    if let Some(v) = violation {
        let labels = it.labels;
        let mut out = std::mem::take(&mut it.out);
        std::mem::forget(it);
        out.labels = labels;
        out.violation = Some(v);
        out.steps = steps;
        world::with(|w| w.quiet = 0);
        return out;
    }
    let chaos = case.h("chaos") != 0;
    let (mut out, v) = it.finish(steps);
    out.violation = v.map(|v| if chaos && v.property != "C05" { Violation { property: "C05", kind: format!("chaos:{}", v.kind), ..v } } else { v });
    out.steps = steps;
    out
}
