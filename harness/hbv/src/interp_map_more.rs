// Second impl block of `Interp` (included at module level by interp_map.rs):
// iterators (C09), drain / extract_if (C10), clone / eq (C11), get_many_mut (C15),
// raw and rustc entries (C14) and the fault-injected step (C04).

impl<'c, K, V> Interp<'c, K, V>
where
    K: KeyT + for<'a> From<&'a KeyRef>,
    V: ValT + Default,
    KeyRef: hb::Equivalent<K>,
    crate::elem::KeyLen: hb::Equivalent<K>,
{
fn iter_op(&mut self, kind: u64, frac: u64, cont: u64) -> Result<(), Bad> {
    let s = &mut self.slots[self.cur];
    let total = s.model.len();
    let prefix = frac_to(frac, total);
    if prefix > 0 && prefix < total && (cont == 1 || cont == 3) {
        self.labels |= dump::L_ITER_CUT;
    }
    let pairs: Vec<(u64, u64)> = s.model.iter().map(|e| (e.id as u64, e.val)).collect();
    let keys: Vec<(u64, u64)> = s.model.iter().map(|e| (e.id as u64, e.gen as u64)).collect();
    let vals: Vec<(u64, u64)> = s.model.iter().map(|e| (e.val, 0)).collect();
    let mutate = cont != 4;
    // for `Clone::clone_from` on the shared iterators: a second map of the same size with foreign
    // contents; an iterator over it, advanced to the same remaining count, is overwritten by
    // `clone_from(&it)` and must continue exactly like `it`
    let decoy: Option<Map<K, V>> = if cont == 3 && kind % 5 != 1 && frac & 2 == 2 && total <= 256 {
        let _q = Quiet::new();
        let mut d = Map::with_hasher_in(PlanBuildHasher::new(s.plan), CheckAlloc);
        for e in &s.model {
            d.insert(K::new(e.id ^ 0x40_0000, e.gen), V::new(e.val ^ 0xffff_0000));
        }
        Some(d)
    } else {
        None
    };
    match kind % 5 {
        0 => {
            // odd fractions go through `IntoIterator for &HashMap`
            let it = if frac & 1 == 1 { (&s.map).into_iter() } else { s.map.iter() };
            let (got, c) = drive_iter(it, total, prefix, cont, Some(&|i: &hb::hash_map::Iter<'_, K, V>| match &decoy {
                Some(d) => {
                    let mut c = d.iter();
                    while c.len() > i.len() {
                        c.next();
                    }
                    c.clone_from(i);
                    c
                }
                None => i.clone(),
            }), "iter", |(k, v)| {
                k.check("iter key");
                v.check("iter value");
                (k.id() as u64, v.get())
            })?;
            compare_yield(got, pairs, c, "iter")?;
            let d = hb::hash_map::Iter::<K, V>::default();
            if d.len() != 0 || d.clone().next().is_some() {
                bad!("C09", "default-iter-not-empty", "Iter::default() is not empty");
            }
        }
        1 => {
            let mut touched = Vec::new();
            // odd fractions go through `IntoIterator for &mut HashMap`
            let it = if frac & 1 == 1 { (&mut s.map).into_iter() } else { s.map.iter_mut() };
            let (got, c) = drive_iter(it, total, prefix, cont, None, "iter_mut", |(k, v)| {
                k.check("iter_mut key");
                v.check("iter_mut value");
                let old = v.get();
                if mutate {
                    v.set(old.wrapping_add(3));
                    touched.push(k.id());
                }
                (k.id() as u64, old)
            })?;
            compare_yield(got, pairs, c, "iter_mut")?;
            for id in touched {
                if let Some(i) = Self::mpos(&s.model, id) {
                    s.model[i].val = s.model[i].val.wrapping_add(3);
                }
            }
            let mut d = hb::hash_map::IterMut::<K, V>::default();
            if d.len() != 0 || d.next().is_some() {
                bad!("C09", "default-iter-not-empty", "IterMut::default() is not empty");
            }
        }
        2 => {
            let (got, c) = drive_iter(s.map.keys(), total, prefix, cont, Some(&|i: &hb::hash_map::Keys<'_, K, V>| match &decoy {
                Some(d) => {
                    let mut c = d.keys();
                    while c.len() > i.len() {
                        c.next();
                    }
                    c.clone_from(i);
                    c
                }
                None => i.clone(),
            }), "keys", |k| {
                k.check("keys item");
                (k.id() as u64, k.gen() as u64)
            })?;
            compare_yield(got, keys, c, "keys")?;
            let d = hb::hash_map::Keys::<K, V>::default();
            if d.len() != 0 || d.clone().next().is_some() {
                bad!("C09", "default-iter-not-empty", "Keys::default() is not empty");
            }
        }
        3 => {
            let (got, c) = drive_iter(s.map.values(), total, prefix, cont, Some(&|i: &hb::hash_map::Values<'_, K, V>| match &decoy {
                Some(d) => {
                    let mut c = d.values();
                    while c.len() > i.len() {
                        c.next();
                    }
                    c.clone_from(i);
                    c
                }
                None => i.clone(),
            }), "values", |v| {
                v.check("values item");
                (v.get(), 0)
            })?;
            compare_yield(got, vals, c, "values")?;
            let d = hb::hash_map::Values::<K, V>::default();
            if d.len() != 0 || d.clone().next().is_some() {
                bad!("C09", "default-iter-not-empty", "Values::default() is not empty");
            }
        }
        _ => {
            // values_mut: mutate only when every element is visited (ids are not visible)
            let all = cont != 4 && cont != 5;
            let (got, c) = drive_iter(s.map.values_mut(), total, prefix, cont, None, "values_mut", |v| {
                v.check("values_mut item");
                let old = v.get();
                if all {
                    v.set(old.wrapping_add(5));
                }
                (old, 0)
            })?;
            compare_yield(got, vals, c, "values_mut")?;
            if all {
                for e in s.model.iter_mut() {
                    e.val = e.val.wrapping_add(5);
                }
            }
            let mut d = hb::hash_map::ValuesMut::<K, V>::default();
            if d.len() != 0 || d.next().is_some() {
                bad!("C09", "default-iter-not-empty", "ValuesMut::default() is not empty");
            }
        }
    }
    Ok(())
}

fn drain_op(&mut self, frac: u64, cont: u64) -> Result<(), Bad> {
    let s = &mut self.slots[self.cur];
    let total = s.model.len();
    let prefix = frac_to(frac, total);
    // dropped early, or consumed by next / fold / for_each / count
    let cont = if cont % 2 == 0 { 5 } else { [0, 1, 2, 4][((frac >> 3) % 4) as usize] };
    if prefix > 0 && prefix < total && cont == 5 {
        self.labels |= dump::L_DRAIN_CUT;
    }
    let size_before = s.map.allocation_size();
    let cap_before = s.map.capacity();
    let pairs: Vec<(u64, u64)> = s.model.iter().map(|e| (e.id as u64, e.val)).collect();
    // the model is emptied first: whatever happens the drained map ends up empty
    s.model.clear();
    let (got, c) = drive_iter(s.map.drain(), total, prefix, cont, None, "drain", |(k, v)| {
        k.check("drain key");
        v.check("drain value");
        (k.id() as u64, v.get())
    })?;
    compare_yield(got, pairs, c, "drain").map_err(|b| ("C10", b.1, b.2))?;
    if !s.map.is_empty() {
        bad!("C10", "drain-leaves-elements", "after drain the map has len {}", s.map.len());
    }
    if s.map.allocation_size() != size_before {
        bad!("C10", "drain-changed-allocation", "drain: allocation_size {} -> {}", size_before, s.map.allocation_size());
    }
    if s.map.capacity() < cap_before.min(Self::dump_of(&s.map).max_load()) {
        bad!("C10", "drain-lost-capacity", "drain: capacity {} -> {}", cap_before, s.map.capacity());
    }
    Ok(())
}

fn extract_if_op(&mut self, salt: u64, pct: u64, frac: u64, mutate: bool) -> Result<(), Bad> {
    let s = &mut self.slots[self.cur];
    let total = s.model.len();
    let selected = s.model.iter().filter(|e| !keep(e.id, salt, pct)).count();
    let take = frac_to(frac, selected + 1);
    if selected > 0 && selected < total && take > 0 && take < selected {
        self.labels |= dump::L_EXTRACT_CUT;
    }
    let mut visited: Vec<u32> = Vec::new();
    let mut yielded: Vec<(u32, u64)> = Vec::new();
    {
        let mut ex = s.map.extract_if(|k, v| {
            world::callback(Class::Closure);
            k.check("extract_if key");
            v.check("extract_if value");
            visited.push(k.id());
            if mutate {
                v.set(v.get().wrapping_add(7));
            }
            !keep(k.id(), salt, pct)
        });
        for _ in 0..take {
            match ex.next() {
                Some((k, v)) => {
                    k.check("extract_if yielded key");
                    v.check("extract_if yielded value");
                    yielded.push((k.id(), v.get()));
                }
                None => break,
            }
        }
        let (lo, hi) = ex.size_hint();
        if lo != 0 || hi.map_or(false, |h| h > total) {
            bad!("C10", "extract_if-size_hint", "size_hint ({lo}, {:?}) with {total} elements", hi);
        }
        drop(ex);
    }
    let mut vs = visited.clone();
    vs.sort_unstable();
    if vs.windows(2).any(|w| w[0] == w[1]) {
        bad!("C10", "extract_if-visited-twice", "predicate saw an element twice: {:?}", visited);
    }
    // yielded must be exactly the visited elements selected by the predicate, in order
    let want_yield: Vec<u32> = visited.iter().copied().filter(|id| !keep(*id, salt, pct)).collect();
    let got_yield: Vec<u32> = yielded.iter().map(|y| y.0).collect();
    if want_yield != got_yield {
        bad!("C10", "extract_if-yield", "visited {:?}: yielded {:?}, selected among visited {:?}", visited, got_yield, want_yield);
    }
    for id in &visited {
        let Some(i) = Self::mpos(&s.model, *id) else {
            bad!("C10", "extract_if-visited-unknown", "predicate saw id {id} which is not in the map");
        };
        if mutate {
            s.model[i].val = s.model[i].val.wrapping_add(7);
        }
    }
    for (id, val) in &yielded {
        let e = Self::model_remove(&mut s.model, *id).unwrap();
        if e.val != *val {
            bad!("C10", "extract_if-value", "yielded ({id}, {val}) model value {}", e.val);
        }
    }
    Ok(())
}

fn into_iter_op(&mut self, kind: u64, frac: u64) -> Result<(), Bad> {
    let s = &mut self.slots[self.cur];
    let total = s.model.len();
    let prefix = frac_to(frac, total);
    let cont = if frac & 1 == 0 { 5 } else { (frac >> 1) % 5 };
    if prefix > 0 && prefix < total && cont == 5 {
        self.labels |= dump::L_INTOITER_CUT;
    }
    let pairs: Vec<(u64, u64)> = s.model.iter().map(|e| (e.id as u64, e.val)).collect();
    let keys: Vec<(u64, u64)> = s.model.iter().map(|e| (e.id as u64, e.gen as u64)).collect();
    let vals: Vec<(u64, u64)> = s.model.iter().map(|e| (e.val, 0)).collect();
    s.model.clear();
    let old = std::mem::replace(&mut s.map, Map::with_hasher_in(PlanBuildHasher::new(s.plan), CheckAlloc));
    match kind % 3 {
        0 => {
            let (got, c) = drive_iter(old.into_iter(), total, prefix, cont, None, "into_iter", |(k, v)| {
                k.check("into_iter key");
                v.check("into_iter value");
                (k.id() as u64, v.get())
            })?;
            compare_yield(got, pairs, c, "into_iter")?;
            let mut d = hb::hash_map::IntoIter::<K, V, CheckAlloc>::default();
            if d.len() != 0 || d.next().is_some() {
                bad!("C09", "default-iter-not-empty", "IntoIter::default() is not empty");
            }
        }
        1 => {
            let (got, c) = drive_iter(old.into_keys(), total, prefix, cont, None, "into_keys", |k| {
                k.check("into_keys item");
                (k.id() as u64, k.gen() as u64)
            })?;
            compare_yield(got, keys, c, "into_keys")?;
            let mut d = hb::hash_map::IntoKeys::<K, V, CheckAlloc>::default();
            if d.len() != 0 || d.next().is_some() {
                bad!("C09", "default-iter-not-empty", "IntoKeys::default() is not empty");
            }
        }
        _ => {
            let (got, c) = drive_iter(old.into_values(), total, prefix, cont, None, "into_values", |v| {
                v.check("into_values item");
                (v.get(), 0)
            })?;
            compare_yield(got, vals, c, "into_values")?;
            let mut d = hb::hash_map::IntoValues::<K, V, CheckAlloc>::default();
            if d.len() != 0 || d.next().is_some() {
                bad!("C09", "default-iter-not-empty", "IntoValues::default() is not empty");
            }
        }
    }
    Ok(())
}

// ---------------------------------------------------------------------------------------------
// C11

fn models_equal(a: &[ME], b: &[ME]) -> bool {
    let mut x: Vec<(u32, u64)> = a.iter().map(|e| (e.id, e.val)).collect();
    let mut y: Vec<(u32, u64)> = b.iter().map(|e| (e.id, e.val)).collect();
    x.sort_unstable();
    y.sort_unstable();
    x == y
}

fn clone_op(&mut self, from_other: bool) -> Result<(), Bad> {
    self.ensure_other();
    let cur = self.cur;
    let (lo, hi) = self.slots.split_at_mut(1);
    let (a, b) = if cur == 0 { (&mut lo[0], &mut hi[0]) } else { (&mut hi[0], &mut lo[0]) };
    // a = current, b = other
    let (dst, src): (&mut Slot<K, V>, &Slot<K, V>) = if from_other { (a, &*b) } else { (b, &*a) };
    let dd = Self::dump_of(&dst.map);
    let sd = Self::dump_of(&src.map);
    let clones_before = world::counts()[Class::CloneV as usize];
    if from_other {
        if dd.bucket_mask != sd.bucket_mask || dd.n_deleted() > 0 {
            self.labels |= dump::L_CLONE_FROM_DIFF;
        }
        dst.map.clone_from(&src.map);
    } else {
        dst.map = src.map.clone();
    }
    // the value types are not `Copy` (with or without drop glue): every stored value must have
    // gone through `Clone::clone`
    let clone_calls = world::counts()[Class::CloneV as usize] - clones_before;
    if (clone_calls as usize) < src.model.len() {
        bad!("C11", "clone-without-Clone", "clone{} of {} pairs called V::clone only {clone_calls} times", if from_other { "_from" } else { "" }, src.model.len());
    }
    dst.model = src.model.clone();
    dst.plan = src.plan;
    {
        let _q = Quiet::new();
        if !(dst.map == src.map) || !(src.map == dst.map) {
            bad!("C11", "clone-not-equal", "clone{} result does not compare equal to its source", if from_other { "_from" } else { "" });
        }
        let x = Self::contents_of(&dst.map, "clone contents");
        let y = Self::contents_of(&src.map, "clone source contents");
        if K::TRACKED {
            for e in &x {
                if y.iter().any(|o| o.ks == e.ks || o.vs == e.vs) {
                    bad!("C11", "clone-shares-elements", "clone holds the same element object as its source (serials {:?}/{:?})", e.ks, e.vs);
                }
            }
        }
    }
    Ok(())
}

fn eq_op(&mut self) -> Result<(), Bad> {
    self.ensure_other();
    let a = &self.slots[0];
    let b = &self.slots[1];
    let want = Self::models_equal(&a.model, &b.model);
    if want && a.plan != b.plan && !a.model.is_empty() {
        self.labels |= dump::L_EQ_DIFF_HISTORY;
    }
    let _q = Quiet::new();
    let ab = a.map == b.map;
    let ba = b.map == a.map;
    if ab != want || ba != want {
        bad!("C11", "eq-wrong", "a == b is {ab}, b == a is {ba}, mathematically {want} (len {} vs {})", a.model.len(), b.model.len());
    }
    // the same object on both sides
    #[allow(clippy::eq_op)]
    if !(a.map == a.map) || !(b.map == b.map) {
        bad!("C11", "eq-wrong", "a map does not compare equal to itself");
    }
    // values whose == is never true (NaN-like): maps are equal only if they hold no pair at all
    world::with(|w| w.val_eq_never = true);
    #[allow(clippy::eq_op)]
    let (aa, ab2) = (a.map == a.map, a.map == b.map);
    world::with(|w| w.val_eq_never = false);
    if aa != a.model.is_empty() || ab2 != (a.model.is_empty() && b.model.is_empty()) {
        bad!("C11", "eq-wrong", "with values that never compare equal: a == a is {aa} (len {}), a == b is {ab2} (len {})", a.model.len(), b.model.len());
    }
    Ok(())
}

// ---------------------------------------------------------------------------------------------
// C15

fn get_many_op(&mut self, a: &[u64; crate::case::MAX_ARGS]) -> Result<(), Bad> {
    let mut n = (a[0] % 5) as usize;
    if n == 4 && a[1] % 3 == 0 {
        // a long request list: 9 or 12 keys derived from the four arguments
        n = if a[2] % 2 == 0 { 9 } else { 12 };
    }
    let ids: Vec<u32> = (0..n).map(|i| self.kid(a[1 + i % 4].wrapping_add((i / 4) as u64 * 7))).collect();
    let kv = a[5] % 2 == 1;
    let s = &mut self.slots[self.cur];
    let present: Vec<Option<usize>> = ids.iter().map(|id| Self::mpos(&s.model, *id)).collect();
    let mut must_panic = false;
    for i in 0..n {
        for j in 0..i {
            if present[i].is_some() && ids[i] == ids[j] {
                must_panic = true;
            }
        }
    }
    let n_present = present.iter().filter(|p| p.is_some()).count();
    if must_panic || (n >= 2 && n_present >= 2) {
        self.labels |= dump::L_MANY_MUT;
    }
    let keys: Vec<K> = ids.iter().map(|id| K::new(*id, 0)).collect();
    let sentinel = |i: usize| 0xABCD_0000u64 + i as u64 + (a[1] << 8);
    // returns (address, observed value, observed key id) per request
    type R = Vec<Option<(usize, u64, Option<u32>)>>;
    let map = &mut s.map;
    // query form: the keys themselves, or (one call in three) unsized equivalents cut from ONE buffer, so
    // that different keys start at the same address (a slice and its prefix)
    let use_len = (a[5] >> 1) % 3 == 1 && ids.iter().all(|id| crate::elem::KeyLen::of(*id).is_some());
    macro_rules! body {
        ($ks:expr) => {{
            let ks = $ks;
            catch_unwind(AssertUnwindSafe(|| -> R {
                if kv {
                    let r = map.get_many_key_value_mut(ks);
                    let mut out = Vec::new();
                    for (i, e) in r.into_iter().enumerate() {
                        out.push(e.map(|(k, v)| {
                            k.check("get_many_key_value_mut key");
                            v.check("get_many_key_value_mut value");
                            let old = v.get();
                            v.set(sentinel(i));
                            (v as *mut V as usize, old, Some(k.id()))
                        }));
                    }
                    out
                } else {
                    let r = map.get_many_mut(ks);
                    let mut out = Vec::new();
                    for (i, e) in r.into_iter().enumerate() {
                        out.push(e.map(|v| {
                            v.check("get_many_mut value");
                            let old = v.get();
                            v.set(sentinel(i));
                            (v as *mut V as usize, old, None)
                        }));
                    }
                    out
                }
            }))
        }};
    }
    macro_rules! call {
        ($n:literal) => {{
            if use_len {
                let ks: [&crate::elem::KeyLen; $n] = std::array::from_fn(|i| crate::elem::KeyLen::of(ids[i]).unwrap());
                body!(ks)
            } else {
                let ks: [&K; $n] = std::array::from_fn(|i| &keys[i]);
                body!(ks)
            }
        }};
    }
    let r = match n {
        0 => call!(0),
        1 => call!(1),
        2 => call!(2),
        3 => call!(3),
        4 => call!(4),
        9 => call!(9),
        _ => call!(12),
    };
    match r {
        Err(p) => {
            if p.downcast_ref::<Injected>().is_some() {
                std::panic::resume_unwind(p);
            }
            drop(p);
            if !must_panic {
                let msg = world::last_panic_message().unwrap_or_default();
                bad!("C15", "get_many_mut-spurious-panic", "get_many_mut({:?}) panicked without two requests for the same entry: {msg}", ids);
            }
            world::clear_panic_messages();
        }
        Ok(res) => {
            // two references to one address are memory unsafety whatever Hash/Eq answer (C05 when the
            // answers are inconsistent, C15 otherwise)
            for i in 0..res.len() {
                for j in 0..i {
                    if let (Some(x), Some(y)) = (&res[i], &res[j]) {
                        if x.0 == y.0 {
                            bad!(if self.lawful { "C15" } else { "C05" }, "get_many_mut-aliasing", "requests {j} and {i} of get_many_mut({:?}) returned the same address {:#x}", ids, x.0);
                        }
                    }
                }
            }
            if must_panic {
                bad!("C15", "get_many_mut-aliasing", "get_many_mut({:?}) returned although two requests name the same present entry", ids);
            }
            if res.len() != n {
                bad!("C15", "get_many_mut-arity", "{} results for {n} requests", res.len());
            }
            for i in 0..n {
                match (&res[i], present[i]) {
                    (Some((_, old, kid)), Some(mi)) => {
                        if *old != s.model[mi].val {
                            bad!("C15", "get_many_mut-wrong-entry", "request {i} (key {}) gave a reference holding {old}, model {}", ids[i], s.model[mi].val);
                        }
                        if let Some(kid) = kid {
                            if *kid != ids[i] {
                                bad!("C15", "get_many_mut-wrong-key", "request {i} (key {}) returned key {kid}", ids[i]);
                            }
                        }
                    }
                    (None, None) => {}
                    (g, p) => bad!("C15", "get_many_mut-presence", "request {i} (key {}): Some={} model present={}", ids[i], g.is_some(), p.is_some()),
                }
                for j in 0..i {
                    if let (Some(x), Some(y)) = (&res[i], &res[j]) {
                        if x.0 == y.0 {
                            bad!("C15", "get_many_mut-aliasing", "requests {j} and {i} returned the same address {:#x}", x.0);
                        }
                    }
                }
            }
            for i in 0..n {
                if let Some(mi) = present[i] {
                    s.model[mi].val = sentinel(i);
                }
            }
        }
    }
    Ok(())
}

// ---------------------------------------------------------------------------------------------
// C14: raw entries and rustc entries

fn raw_entry_ro_op(&mut self, k: u32, how: u64) -> Result<(), Bad> {
    let s = &self.slots[self.cur];
    let h = s.plan.hash(k as u64);
    let want = Self::mpos(&s.model, k).map(|i| &s.model[i]);
    let key = K::new(k, 0);
    let r = match how {
        0 => s.map.raw_entry().from_key(&key),
        1 => s.map.raw_entry().from_key_hashed_nocheck(h, &key),
        _ => s.map.raw_entry().from_hash(h, |q| {
            world::callback(Class::Closure);
            q.id() == k
        }),
    };
    match (r, want) {
        (Some((kk, vv)), Some(w)) => {
            kk.check("raw_entry key");
            vv.check("raw_entry value");
            if kk.id() != k || kk.gen() != w.gen || vv.get() != w.val {
                bad!("C14", "raw_entry-contents", "raw_entry({k}) how {how}: ({}, gen {}, {}) model {:?}", kk.id(), kk.gen(), vv.get(), w);
            }
        }
        (None, None) => {}
        (g, w) => bad!("C14", "raw_entry-presence", "raw_entry({k}) how {how}: found={} model {:?}", g.is_some(), w),
    }
    Ok(())
}

fn raw_entry_op(&mut self, k: u32, how: u64, act: u64, v: u64) -> Result<(), Bad> {
    use hb::hash_map::RawEntryMut;
    let g = self.gen();
    let s = &mut self.slots[self.cur];
    let pre = Self::dump_of(&s.map);
    if pre.growth_left == 0 && !pre.is_singleton {
        self.labels |= dump::L_ENTRY_AT_FULL;
    }
    let plan = s.plan;
    let h = plan.hash(k as u64);
    let present = Self::mpos(&s.model, k);
    let key = K::new(k, 0);
    let e = match how {
        0 => s.map.raw_entry_mut().from_key(&key),
        1 => s.map.raw_entry_mut().from_key_hashed_nocheck(h, &key),
        _ => s.map.raw_entry_mut().from_hash(h, |q| {
            world::callback(Class::Closure);
            q.id() == k
        }),
    };
    match (&e, present) {
        (RawEntryMut::Occupied(o), Some(i)) => {
            o.key().check("raw_entry_mut occupied key");
            o.get().check("raw_entry_mut occupied value");
            if o.key().id() != k || o.key().gen() != s.model[i].gen || o.get().get() != s.model[i].val {
                bad!("C14", "raw_entry_mut-occupied-contents", "raw_entry_mut({k}): ({}, gen {}, {}) model {:?}", o.key().id(), o.key().gen(), o.get().get(), s.model[i]);
            }
        }
        (RawEntryMut::Vacant(_), None) => {}
        (RawEntryMut::Occupied(_), None) => bad!("C14", "entry-discriminant", "raw_entry_mut({k}) how {how} is Occupied, key absent"),
        (RawEntryMut::Vacant(_), Some(_)) => bad!("C14", "entry-discriminant", "raw_entry_mut({k}) how {how} is Vacant, key present"),
    }
    let model = &mut s.model;
    match act {
        0 => {
            let o = e.insert(K::new(k, g), V::new(v));
            let want_gen = match present {
                Some(i) => {
                    model[i].val = v;
                    model[i].gen
                }
                None => {
                    model.push(ME { id: k, gen: g, val: v });
                    g
                }
            };
            if o.get().get() != v || o.key().gen() != want_gen {
                bad!("C14", "raw_entry_mut-insert", "insert: ({}, gen {}) want ({v}, gen {want_gen})", o.get().get(), o.key().gen());
            }
        }
        1 | 2 => {
            let (kk, vv) = if act == 1 {
                e.or_insert(K::new(k, g), V::new(v))
            } else {
                e.or_insert_with(|| {
                    world::callback(Class::Closure);
                    (K::new(k, g), V::new(v))
                })
            };
            kk.check("raw or_insert key");
            vv.check("raw or_insert value");
            let (wg, wv) = match present {
                Some(i) => (model[i].gen, model[i].val),
                None => {
                    model.push(ME { id: k, gen: g, val: v });
                    (g, v)
                }
            };
            if kk.gen() != wg || vv.get() != wv {
                bad!("C14", "raw_entry_mut-or_insert", "or_insert: (gen {}, {}) want (gen {wg}, {wv})", kk.gen(), vv.get());
            }
        }
        3 => {
            let (_, vv) = e
                .and_modify(|_, x| {
                    world::callback(Class::Closure);
                    x.set(v)
                })
                .or_insert(K::new(k, g), V::new(v.wrapping_add(1)));
            let want = match present {
                Some(i) => {
                    model[i].val = v;
                    v
                }
                None => {
                    model.push(ME { id: k, gen: g, val: v.wrapping_add(1) });
                    v.wrapping_add(1)
                }
            };
            if vv.get() != want {
                bad!("C14", "raw_entry_mut-and_modify", "and_modify.or_insert: {} want {want}", vv.get());
            }
        }
        4 | 5 => {
            let some = act == 4;
            let e2 = e.and_replace_entry_with(|_, old| {
                world::callback(Class::Closure);
                if some {
                    Some(V::new(old.get().wrapping_add(v)))
                } else {
                    None
                }
            });
            let occ = matches!(e2, RawEntryMut::Occupied(_));
            drop(e2);
            match present {
                Some(i) => {
                    if some {
                        model[i].val = model[i].val.wrapping_add(v);
                    } else {
                        model.remove(i);
                    }
                    if occ != some {
                        bad!("C14", "raw_entry_mut-and_replace", "and_replace_entry_with returned occupied={occ} want {some}");
                    }
                }
                None => {
                    if occ {
                        bad!("C14", "raw_entry_mut-and_replace", "vacant entry became occupied");
                    }
                }
            }
        }
        _ => match e {
            RawEntryMut::Occupied(mut o) => {
                let i = present.unwrap();
                match act {
                    6 => {
                        let oldk = o.insert_key(K::new(k, g));
                        oldk.check("insert_key old key");
                        if oldk.gen() != model[i].gen {
                            bad!("C14", "raw_entry_mut-insert_key", "insert_key returned gen {} model {}", oldk.gen(), model[i].gen);
                        }
                        model[i].gen = g;
                    }
                    7 => {
                        let old = o.remove();
                        if old.get() != model[i].val {
                            bad!("C14", "raw_entry_mut-remove", "remove returned {} model {}", old.get(), model[i].val);
                        }
                        model.remove(i);
                    }
                    8 => {
                        let (kk, vv) = o.remove_entry();
                        if kk.gen() != model[i].gen || vv.get() != model[i].val {
                            bad!("C14", "raw_entry_mut-remove_entry", "remove_entry returned (gen {}, {}) model {:?}", kk.gen(), vv.get(), model[i]);
                        }
                        model.remove(i);
                    }
                    9 => {
                        let old = o.insert(V::new(v));
                        if old.get() != model[i].val {
                            bad!("C14", "raw_entry_mut-occupied-insert", "insert returned {} model {}", old.get(), model[i].val);
                        }
                        model[i].val = v;
                    }
                    10 => {
                        let (kk, vv) = o.get_key_value_mut();
                        kk.check("get_key_value_mut key");
                        vv.set(v);
                        model[i].val = v;
                    }
                    _ => {
                        let (kk, vv) = o.into_key_value();
                        kk.check("into_key_value key");
                        vv.set(v);
                        model[i].val = v;
                    }
                }
            }
            RawEntryMut::Vacant(vac) => match act {
                6 => {
                    let (kk, vv) = vac.insert(K::new(k, g), V::new(v));
                    kk.check("raw vacant insert key");
                    if kk.gen() != g || vv.get() != v {
                        bad!("C14", "raw_entry_mut-vacant-insert", "insert gave (gen {}, {})", kk.gen(), vv.get());
                    }
                    model.push(ME { id: k, gen: g, val: v });
                }
                7 | 10 => {
                    let (kk, vv) = vac.insert_hashed_nocheck(h, K::new(k, g), V::new(v));
                    if kk.gen() != g || vv.get() != v {
                        bad!("C14", "raw_entry_mut-vacant-insert", "insert_hashed_nocheck gave (gen {}, {})", kk.gen(), vv.get());
                    }
                    model.push(ME { id: k, gen: g, val: v });
                }
                8 | 11 => {
                    let (kk, vv) = vac.insert_with_hasher(h, K::new(k, g), V::new(v), |q| {
                        world::callback(Class::Hash);
                        plan.hash(q.id() as u64)
                    });
                    if kk.gen() != g || vv.get() != v {
                        bad!("C14", "raw_entry_mut-vacant-insert", "insert_with_hasher gave (gen {}, {})", kk.gen(), vv.get());
                    }
                    model.push(ME { id: k, gen: g, val: v });
                }
                _ => drop(vac),
            },
        },
    }
    Ok(())
}

fn rustc_entry_op(&mut self, k: u32, act: u64, v: u64) -> Result<(), Bad> {
    use hb::hash_map::RustcEntry;
    let g = self.gen();
    let s = &mut self.slots[self.cur];
    let pre = Self::dump_of(&s.map);
    if pre.growth_left == 0 && !pre.is_singleton {
        self.labels |= dump::L_ENTRY_AT_FULL;
    }
    let present = Self::mpos(&s.model, k);
    let e = s.map.rustc_entry(K::new(k, g));
    match (&e, present) {
        (RustcEntry::Occupied(o), Some(i)) => {
            o.key().check("rustc_entry occupied key");
            if o.key().gen() != s.model[i].gen || o.get().get() != s.model[i].val {
                bad!("C14", "rustc_entry-occupied-contents", "rustc_entry({k}): (gen {}, {}) model {:?}", o.key().gen(), o.get().get(), s.model[i]);
            }
        }
        (RustcEntry::Vacant(vac), None) => {
            if vac.key().id() != k || vac.key().gen() != g {
                bad!("C14", "rustc_entry-vacant-key", "vacant key ({}, gen {})", vac.key().id(), vac.key().gen());
            }
        }
        (RustcEntry::Occupied(_), None) => bad!("C14", "entry-discriminant", "rustc_entry({k}) is Occupied, key absent"),
        (RustcEntry::Vacant(_), Some(_)) => bad!("C14", "entry-discriminant", "rustc_entry({k}) is Vacant, key present"),
    }
    let model = &mut s.model;
    match act {
        0 | 1 | 2 => {
            let r: &mut V = match act {
                0 => e.or_insert(V::new(v)),
                1 => e.or_insert_with(|| {
                    world::callback(Class::Closure);
                    V::new(v)
                }),
                _ => e.or_default(),
            };
            r.check("rustc_entry or_insert reference");
            let nv = if act == 2 { 0 } else { v };
            let want = match present {
                Some(i) => model[i].val,
                None => {
                    model.push(ME { id: k, gen: g, val: nv });
                    nv
                }
            };
            if r.get() != want {
                bad!("C14", "rustc_entry-or_insert", "or_insert act {act}: {} want {want}", r.get());
            }
        }
        3 => {
            let r = e
                .and_modify(|x| {
                    world::callback(Class::Closure);
                    x.set(v)
                })
                .or_insert(V::new(v.wrapping_add(1)));
            let want = match present {
                Some(i) => {
                    model[i].val = v;
                    v
                }
                None => {
                    model.push(ME { id: k, gen: g, val: v.wrapping_add(1) });
                    v.wrapping_add(1)
                }
            };
            if r.get() != want {
                bad!("C14", "rustc_entry-and_modify", "and_modify.or_insert: {} want {want}", r.get());
            }
        }
        4 => {
            let o = e.insert(V::new(v));
            let want_gen = match present {
                Some(i) => {
                    model[i].val = v;
                    model[i].gen
                }
                None => {
                    model.push(ME { id: k, gen: g, val: v });
                    g
                }
            };
            if o.get().get() != v || o.key().gen() != want_gen {
                bad!("C14", "rustc_entry-insert", "RustcEntry::insert: ({}, gen {}) want ({v}, gen {want_gen})", o.get().get(), o.key().gen());
            }
        }
        _ => match e {
            RustcEntry::Occupied(mut o) => {
                let i = present.unwrap();
                match act {
                    5 => {
                        o.get_mut().set(v);
                        model[i].val = v;
                    }
                    6 => {
                        let r = o.into_mut();
                        r.set(v);
                        model[i].val = v;
                    }
                    7 => {
                        let old = o.insert(V::new(v));
                        if old.get() != model[i].val {
                            bad!("C14", "rustc_entry-occupied-insert", "insert returned {} model {}", old.get(), model[i].val);
                        }
                        model[i].val = v;
                    }
                    8 => {
                        let old = o.remove();
                        if old.get() != model[i].val {
                            bad!("C14", "rustc_entry-remove", "remove returned {} model {}", old.get(), model[i].val);
                        }
                        model.remove(i);
                    }
                    _ => {
                        let (kk, vv) = o.remove_entry();
                        if kk.gen() != model[i].gen || vv.get() != model[i].val {
                            bad!("C14", "rustc_entry-remove_entry", "remove_entry returned (gen {}, {}) model {:?}", kk.gen(), vv.get(), model[i]);
                        }
                        model.remove(i);
                    }
                }
            }
            RustcEntry::Vacant(vac) => match act {
                5 | 8 => drop(vac),
                6 => {
                    let kk = vac.into_key();
                    if kk.gen() != g {
                        bad!("C14", "rustc_entry-into_key", "into_key gen {}", kk.gen());
                    }
                }
                7 => {
                    let o = vac.insert_entry(V::new(v));
                    if o.get().get() != v || o.key().gen() != g {
                        bad!("C14", "rustc_entry-insert_entry", "insert_entry gave (gen {}, {})", o.key().gen(), o.get().get());
                    }
                    model.push(ME { id: k, gen: g, val: v });
                }
                _ => {
                    let r = vac.insert(V::new(v));
                    if r.get() != v {
                        bad!("C14", "rustc_entry-vacant-insert", "insert reference holds {}", r.get());
                    }
                    model.push(ME { id: k, gen: g, val: v });
                }
            },
        },
    }
    Ok(())
}

// ---------------------------------------------------------------------------------------------
// C04: one step with an armed fault

/// Operations during which at most one growth can happen and nothing is changed before it.
fn single_growth_op(code: u16) -> bool {
    matches!(
        code,
        ops::INSERT
            | ops::TRY_INSERT
            | ops::ENTRY
            | ops::ENTRY_REF
            | ops::RESERVE
            | ops::TRY_RESERVE
            | ops::SHRINK_TO
            | ops::SHRINK_TO_FIT
            | ops::INSERT_UNIQUE_UNCHECKED
            | ops::RAW_ENTRY
            | ops::RUSTC_ENTRY
            | ops::RESERVE_TO_BOUNDARY
    )
}

pub fn faulted_step(&mut self, step: usize, op: &Op) -> Result<(), Violation> {
    let class = Class::from_usize(self.case.h("fault_class") as usize).unwrap_or(Class::Hash);
    let k = self.case.h("fault_k");
    let pre: Vec<Vec<Snap>> = self.slots.iter().map(|s| Self::contents_of(&s.map, "pre-fault contents")).collect();
    let pre_dump = Self::dump_of(&self.slots[self.cur].map);
    let serials_before = world::n_serials();
    let stats_before = alloc::stats();
    alloc::begin_op();
    world::clear_panic_messages();
    let counts_before = world::counts();
    if k > 0 {
        world::arm_fault(class, k);
    }
    let r = catch_unwind(AssertUnwindSafe(|| self.exec(op)));
    let fired = world::disarm_fault();
    self.track_pristine(op);
    let counts_after = world::counts();
    for c in 0..world::NCLASS {
        self.out.counters.push((world::CLASS_NAMES[c], counts_after[c] - counts_before[c]));
    }
    let relabel = |v: Violation| Violation {
        property: "C04",
        kind: format!("after-panic:{}", v.kind),
        ..v
    };
    match r {
        Ok(Ok(())) => {
            if let Err(b) = self.check_state(None) {
                let v = self.to_violation(step, b);
                return Err(if fired { relabel(v) } else { v });
            }
            return Ok(());
        }
        Ok(Err(b)) => {
            let v = self.to_violation(step, b);
            return Err(if fired { relabel(v) } else { v });
        }
        Err(payload) => {
            let injected = payload.downcast_ref::<Injected>().is_some();
            drop(payload);
            if !injected {
                let msg = world::last_panic_message().unwrap_or_else(|| "<no message>".into());
                return Err(Violation {
                    property: if fired { "C04" } else { self.panic_prop },
                    kind: "unexpected-panic".into(),
                    step,
                    detail: format!("operation panicked with a foreign payload (fault fired: {fired}): {msg}"),
                });
            }
        }
    }
    // ---- the injected panic unwound out of the operation
    self.pristine = [false, false];
    self.out.count("faults_fired", 1);
    self.labels |= dump::L_FAULT_UNWOUND;
    let st = alloc::stats();
    let grew = st.n_alloc > stats_before.n_alloc;
    if grew {
        self.labels |= dump::L_FAULT_GROWTH;
    }
    if class == Class::Hash && !grew && pre_dump.n_deleted() > 0 && pre_dump.growth_left == 0 {
        self.labels |= dump::L_FAULT_REHASH;
    }
    if class != Class::Hash {
        self.labels |= dump::L_FAULT_OTHER;
    }
    if class.is_drop() {
        self.leak_ok = true;
    }
    let _q = Quiet::new();
    let mk = |kind: &str, detail: String| Violation {
        property: "C04",
        kind: kind.to_string(),
        step,
        detail,
    };
    if let Some(v) = world::take_violation() {
        return Err(relabel(v));
    }
    let mut expected_blocks = 0;
    for si in 0..self.slots.len() {
        let s = &mut self.slots[si];
        let d = Self::dump_of(&s.map);
        if let Err(b) = d.validate(true) {
            return Err(mk(&format!("after-panic:{}", b.1), format!("class {:?} k {k}: {}", class, b.2)));
        }
        if !d.is_singleton {
            expected_blocks += 1;
        }
        let now = Self::contents_of(&s.map, "post-panic contents");
        if now.len() != s.map.len() {
            return Err(mk("after-panic:len-vs-iter", format!("len() {} but iter() yields {}", s.map.len(), now.len())));
        }
        if self.lawful {
            for e in &now {
                match s.map.get_key_value(&KeyRef(e.id)) {
                    Some((kk, _)) if kk.gen() == e.gen => {}
                    _ => return Err(mk("after-panic:yielded-key-not-found", format!("iter() yields key {} (gen {}) that get() does not find", e.id, e.gen))),
                }
            }
        }
        let before = pre.get(si).cloned().unwrap_or_default();
        for e in &now {
            let known = if K::TRACKED {
                let kn = before.iter().any(|b| b.ks == e.ks) || e.ks.map_or(false, |x| x >= serials_before);
                let vn = before.iter().any(|b| b.vs == e.vs) || e.vs.map_or(false, |x| x >= serials_before);
                kn && vn
            } else {
                true
            };
            if !known {
                return Err(mk("after-panic:foreign-element", format!("element ({}, gen {}, {}) is neither pre-existing nor handed in by this operation", e.id, e.gen, e.val)));
            }
        }
        if K::TRACKED && !class.is_drop() {
            for b in &before {
                for ser in [b.ks, b.vs].into_iter().flatten() {
                    let still = now.iter().any(|e| e.ks == Some(ser) || e.vs == Some(ser));
                    // an element may have moved to the other slot only through clone (fresh serials), so
                    // "not present here" means it left the collection
                    if !still && world::elem_state(ser) == Some(world::ElemState::Live) {
                        return Err(mk("after-panic:element-lost-not-dropped", format!("element serial {ser} of pair ({}, {}) left the map but was never dropped", b.id, b.val)));
                    }
                }
            }
        }
        if class == Class::Hash && grew && si == self.cur && Self::single_growth_op(op.code) {
            let a: Vec<_> = now.iter().map(|e| (e.id, e.gen, e.val, e.ks, e.vs)).collect();
            let b: Vec<_> = before.iter().map(|e| (e.id, e.gen, e.val, e.ks, e.vs)).collect();
            if a != b {
                return Err(mk("hash-panic-during-growth-changed-contents", format!("{} pairs before, {} after a hasher panic while growing into a new allocation", b.len(), a.len())));
            }
        }
        s.model = now.iter().map(|e| ME { id: e.id, gen: e.gen, val: e.val }).collect();
        // the unwind may have left a different map object in the slot than the harness bookkeeping
        // says (`slot.map = other.clone()` still installs the clone when dropping the old map
        // panics): take the hash plan from the map itself
        s.plan = s.map.hasher().plan;
    }
    if !class.is_drop() && st.n_live != expected_blocks {
        return Err(mk("after-panic:block-leaked", format!("ledger holds {} blocks, collections own {expected_blocks} (class {:?})", st.n_live, class)));
    }
    alloc::check_zones(false);
    if let Some(v) = world::take_violation() {
        return Err(relabel(v));
    }
    Ok(())
}
}
