//! Thread-local "World": element registry, fault plan, callback counters, answer tapes and the
//! list of violations observed by monitors that must never panic themselves (Drop impls, the
//! allocator). Reset at the start of every case.

use std::cell::RefCell;

/// Callback classes of property C04.
#[derive(Clone, Copy, Debug, PartialEq, Eq)]
#[repr(usize)]
pub enum Class {
    Hash = 0,
    Eq = 1,
    CloneK = 2,
    CloneV = 3,
    DropK = 4,
    DropV = 5,
    Closure = 6,
    Into = 7,
    IterNext = 8,
}
pub const NCLASS: usize = 9;
pub const CLASS_NAMES: [&str; NCLASS] = [
    "hash", "eq", "clone_k", "clone_v", "drop_k", "drop_v", "closure", "into", "iter_next",
];
impl Class {
    pub fn from_usize(i: usize) -> Option<Class> {
        use Class::*;
        [Hash, Eq, CloneK, CloneV, DropK, DropV, Closure, Into, IterNext]
            .get(i)
            .copied()
    }
    pub fn is_drop(self) -> bool {
        matches!(self, Class::DropK | Class::DropV)
    }
}

/// Panic payload of injected faults.
#[derive(Debug)]
pub struct Injected;

#[derive(Clone, Debug, PartialEq, Eq)]
pub struct Violation {
    pub property: &'static str,
    pub kind: String,
    pub step: usize,
    pub detail: String,
}

#[derive(Clone, Copy, PartialEq, Eq, Debug)]
pub enum ElemState {
    Live,
    Dropped,
}

/// How `Hash`/`Eq` answers are produced (C05).
#[derive(Clone, Debug, Default)]
pub struct Chaos {
    /// 0 = lawful; 1 = fresh answer every call (tape); 2 = hash depends on call parity;
    /// 3 = equal keys, different hashes (hash mixes `gen`); 4 = always-equal; 5 = never-equal;
    /// 6 = non-transitive equality (|a-b| <= 1 on id % 3 classes); 7 = tape for eq only
    pub mode: u32,
    pub hash_tape: Vec<u64>,
    pub eq_tape: Vec<bool>,
    pub hash_pos: usize,
    pub eq_pos: usize,
}

pub struct World {
    pub elems: Vec<ElemState>,
    pub live_elems: usize,
    pub counts: [u64; NCLASS],
    /// `(class, k)`: the k-th (1-based, counted from arming) invocation of the class panics.
    pub fault: Option<(Class, u64)>,
    pub fault_base: [u64; NCLASS],
    pub fault_fired: bool,
    /// While > 0 no fault is injected and chaos answers are lawful (validation, model upkeep).
    pub quiet: u32,
    pub chaos: Chaos,
    pub violations: Vec<Violation>,
    pub step: usize,
    /// Plan used by `PlanBuildHasher::default()`.
    pub default_plan: crate::plan::Plan,
    pub unexpected_panics: Vec<String>,
    /// progress counter for the watchdog
    pub progress: u64,
    /// zero-sized tracked elements (no identity): constructions and drops
    pub zst_made: u64,
    pub zst_dropped: u64,
    /// values compare unequal to everything, themselves included (a NaN-like `PartialEq`)
    pub val_eq_never: bool,
}

impl World {
    fn new() -> World {
        World {
            elems: Vec::new(),
            live_elems: 0,
            counts: [0; NCLASS],
            fault: None,
            fault_base: [0; NCLASS],
            fault_fired: false,
            quiet: 0,
            chaos: Chaos::default(),
            violations: Vec::new(),
            step: 0,
            default_plan: crate::plan::Plan::mixed(0),
            unexpected_panics: Vec::new(),
            progress: 0,
            zst_made: 0,
            zst_dropped: 0,
            val_eq_never: false,
        }
    }
}

thread_local! {
    pub static WORLD: RefCell<World> = RefCell::new(World::new());
}

pub fn with<R>(f: impl FnOnce(&mut World) -> R) -> R {
    WORLD.with(|w| f(&mut w.borrow_mut()))
}

/// Reset everything (start of a case). The allocation ledger is reset separately.
pub fn reset() {
    with(|w| *w = World::new());
    crate::alloc::reset_ledger();
}

pub fn violation(property: &'static str, kind: &str, detail: String) {
    with(|w| {
        let step = w.step;
        if w.violations.len() < 32 {
            w.violations.push(Violation {
                property,
                kind: kind.to_string(),
                step,
                detail,
            });
        }
    });
}

pub fn take_violation() -> Option<Violation> {
    with(|w| {
        if w.violations.is_empty() {
            None
        } else {
            Some(w.violations[0].clone())
        }
    })
}

pub fn set_step(step: usize) {
    with(|w| {
        w.step = step;
        w.progress = w.progress.wrapping_add(1);
    });
    crate::watchdog::tick();
}

// ---------------------------------------------------------------------------------------------
// element registry

pub const MAGIC_LIVE: u64 = 0x11FE_C0DE_5EED_F00D;
pub const MAGIC_DEAD: u64 = 0xDEAD_DEAD_DEAD_DEAD;

pub fn new_serial() -> u64 {
    with(|w| {
        w.elems.push(ElemState::Live);
        w.live_elems += 1;
        (w.elems.len() - 1) as u64
    })
}

/// Called from `Drop` of a tracked token. Never panics.
pub fn drop_event(serial: u64, magic: u64) {
    with(|w| {
        let step = w.step;
        let mut bad: Option<(&'static str, &str, String)> = None;
        if magic != MAGIC_LIVE {
            if magic == MAGIC_DEAD {
                bad = Some(("C03", "double-drop", format!("serial {serial} dropped again (dead magic)")));
            } else {
                bad = Some((
                    "C02",
                    "drop-of-garbage",
                    format!("drop of an object with magic {magic:#x} serial {serial:#x}"),
                ));
            }
        } else {
            match w.elems.get(serial as usize) {
                None => {
                    bad = Some(("C02", "drop-of-unknown", format!("unknown serial {serial}")));
                }
                Some(ElemState::Dropped) => {
                    bad = Some(("C03", "double-drop", format!("serial {serial} dropped twice")));
                }
                Some(ElemState::Live) => {
                    w.elems[serial as usize] = ElemState::Dropped;
                    w.live_elems -= 1;
                }
            }
        }
        if let Some((p, k, d)) = bad {
            if w.violations.len() < 32 {
                w.violations.push(Violation {
                    property: p,
                    kind: k.to_string(),
                    step,
                    detail: d,
                });
            }
        }
    })
}

/// Check a reference handed out by hashbrown to a tracked token.
pub fn check_ref(serial: u64, magic: u64, what: &str) {
    if magic != MAGIC_LIVE {
        violation(
            "C02",
            "bad-reference",
            format!("{what}: reference to object with magic {magic:#x} (serial {serial:#x})"),
        );
        return;
    }
    let st = with(|w| w.elems.get(serial as usize).copied());
    match st {
        Some(ElemState::Live) => {}
        Some(ElemState::Dropped) => violation(
            "C02",
            "reference-to-dropped",
            format!("{what}: reference to dropped element serial {serial}"),
        ),
        None => violation(
            "C02",
            "bad-reference",
            format!("{what}: unknown serial {serial}"),
        ),
    }
}

pub fn elem_state(serial: u64) -> Option<ElemState> {
    with(|w| w.elems.get(serial as usize).copied())
}

pub fn live_serials() -> Vec<u64> {
    with(|w| {
        w.elems
            .iter()
            .enumerate()
            .filter(|(_, s)| **s == ElemState::Live)
            .map(|(i, _)| i as u64)
            .collect()
    })
}

pub fn n_serials() -> u64 {
    with(|w| w.elems.len() as u64)
}

// ---------------------------------------------------------------------------------------------
// callbacks, faults

/// Record an invocation of a user callback of the given class; panics with `Injected` if the
/// armed fault says so.
pub fn callback(class: Class) {
    let fire = with(|w| {
        if w.quiet > 0 {
            return false;
        }
        w.counts[class as usize] += 1;
        if let Some((c, k)) = w.fault {
            if c == class && !w.fault_fired {
                let n = w.counts[class as usize] - w.fault_base[class as usize];
                if n == k {
                    return true;
                }
            }
        }
        false
    });
    if fire && !std::thread::panicking() {
        with(|w| w.fault_fired = true);
        std::panic::panic_any(Injected);
    }
}

pub fn arm_fault(class: Class, k: u64) {
    with(|w| {
        w.fault = Some((class, k));
        w.fault_base = w.counts;
        w.fault_fired = false;
    });
}

pub fn disarm_fault() -> bool {
    with(|w| {
        w.fault = None;
        let f = w.fault_fired;
        w.fault_fired = false;
        f
    })
}

pub fn counts() -> [u64; NCLASS] {
    with(|w| w.counts)
}

pub struct Quiet;
impl Quiet {
    pub fn new() -> Quiet {
        with(|w| w.quiet += 1);
        Quiet
    }
}
impl Drop for Quiet {
    fn drop(&mut self) {
        with(|w| w.quiet -= 1);
    }
}

pub fn is_quiet() -> bool {
    with(|w| w.quiet > 0)
}

/// Install (once per process) a panic hook that stays silent for injected faults and records
/// the message of every other panic in the World of the panicking thread.
pub fn install_panic_hook() {
    use std::sync::Once;
    static ONCE: Once = Once::new();
    ONCE.call_once(|| {
        let verbose = std::env::var("HBV_VERBOSE_PANICS").is_ok();
        std::panic::set_hook(Box::new(move |info| {
            if info.payload().downcast_ref::<Injected>().is_some() {
                return;
            }
            let msg = if let Some(s) = info.payload().downcast_ref::<&str>() {
                s.to_string()
            } else if let Some(s) = info.payload().downcast_ref::<String>() {
                s.clone()
            } else {
                "<non-string panic payload>".to_string()
            };
            let loc = info
                .location()
                .map(|l| format!("{}:{}", l.file(), l.line()))
                .unwrap_or_default();
            if verbose {
                eprintln!("panic at {loc}: {msg}");
            }
            let _ = WORLD.try_with(|w| {
                if let Ok(mut w) = w.try_borrow_mut() {
                    if w.unexpected_panics.len() < 8 {
                        w.unexpected_panics.push(format!("{loc}: {msg}"));
                    }
                }
            });
        }));
    });
}

pub fn last_panic_message() -> Option<String> {
    with(|w| w.unexpected_panics.last().cloned())
}

pub fn clear_panic_messages() {
    with(|w| w.unexpected_panics.clear());
}
