//! Element types for the HashTable interpreter: the element carries its caller-supplied hash.

use crate::world::{self, Class, MAGIC_DEAD, MAGIC_LIVE};

pub trait TElemT: Clone + 'static {
    const TRACKED: bool;
    fn new(id: u32, hash: u64, payload: u64, uid: u64) -> Self;
    fn id(&self) -> u32;
    fn hash(&self) -> u64;
    fn payload(&self) -> u64;
    fn set_payload(&mut self, p: u64);
    fn uid(&self) -> u64;
    fn check(&self, what: &str);
    fn serial(&self) -> Option<u64>;
}

#[derive(Debug)]
pub struct TElem {
    id: u32,
    hash: u64,
    payload: u64,
    uid: u64,
    magic: u64,
    serial: u64,
}

impl TElemT for TElem {
    const TRACKED: bool = true;
    fn new(id: u32, hash: u64, payload: u64, uid: u64) -> Self {
        TElem { id, hash, payload, uid, magic: MAGIC_LIVE, serial: world::new_serial() }
    }
    fn id(&self) -> u32 {
        self.id
    }
    fn hash(&self) -> u64 {
        self.hash
    }
    fn payload(&self) -> u64 {
        self.payload
    }
    fn set_payload(&mut self, p: u64) {
        self.payload = p;
    }
    fn uid(&self) -> u64 {
        self.uid
    }
    fn check(&self, what: &str) {
        world::check_ref(self.serial, self.magic, what);
    }
    fn serial(&self) -> Option<u64> {
        Some(self.serial)
    }
}

impl Drop for TElem {
    fn drop(&mut self) {
        world::drop_event(self.serial, self.magic);
        unsafe { std::ptr::write_volatile(&mut self.magic, MAGIC_DEAD) };
        world::callback(Class::DropK);
    }
}

impl Clone for TElem {
    fn clone(&self) -> Self {
        world::callback(Class::CloneK);
        TElem::new(self.id, self.hash, self.payload, self.uid)
    }
}

#[derive(Debug, Clone, Copy)]
pub struct PElem {
    id: u32,
    hash: u64,
    payload: u64,
    uid: u64,
}

impl TElemT for PElem {
    const TRACKED: bool = false;
    fn new(id: u32, hash: u64, payload: u64, uid: u64) -> Self {
        PElem { id, hash, payload, uid }
    }
    fn id(&self) -> u32 {
        self.id
    }
    fn hash(&self) -> u64 {
        self.hash
    }
    fn payload(&self) -> u64 {
        self.payload
    }
    fn set_payload(&mut self, p: u64) {
        self.payload = p;
    }
    fn uid(&self) -> u64 {
        self.uid
    }
    fn check(&self, _what: &str) {}
    fn serial(&self) -> Option<u64> {
        None
    }
}
