//! serde impls for the tracked element types (C20) with an injectable element failure.

use crate::elem::{Key, KeyT, Val, ValT};
use serde::de::{Deserialize, Deserializer, Error as _};
use serde::ser::{Serialize, Serializer};
use std::cell::Cell;

thread_local! {
    /// 1-based index of the element (keys and values both count) whose deserialisation fails
    pub static FAIL_AT: Cell<u64> = const { Cell::new(u64::MAX) };
    pub static SEEN: Cell<u64> = const { Cell::new(0) };
}

fn tick<E: serde::de::Error>() -> Result<u64, E> {
    let n = SEEN.with(|s| {
        s.set(s.get() + 1);
        s.get()
    });
    if n == FAIL_AT.with(|f| f.get()) {
        return Err(E::custom("injected element failure"));
    }
    Ok(n)
}

impl Serialize for Key {
    fn serialize<S: Serializer>(&self, s: S) -> Result<S::Ok, S::Error> {
        s.serialize_u32(self.id)
    }
}
impl<'de> Deserialize<'de> for Key {
    fn deserialize<D: Deserializer<'de>>(d: D) -> Result<Key, D::Error> {
        let id = u32::deserialize(d)?;
        let n = tick::<D::Error>()?;
        Ok(Key::new(id, n as u32))
    }
}
impl Serialize for Val {
    fn serialize<S: Serializer>(&self, s: S) -> Result<S::Ok, S::Error> {
        s.serialize_u64(self.v)
    }
}
impl<'de> Deserialize<'de> for Val {
    fn deserialize<D: Deserializer<'de>>(d: D) -> Result<Val, D::Error> {
        let v = u64::deserialize(d)?;
        tick::<D::Error>()?;
        Ok(Val::new(v))
    }
}
