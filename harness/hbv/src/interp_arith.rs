// C17 (capacity / layout / probe arithmetic) and C18 (scanner primitives) single-input checks
// through the verif hooks. Included once per back-end. Oracles use u128 arithmetic written from
// the property statements.

use crate::case::Case;
use crate::dump::Bad;
use crate::outcome::Outcome;
use crate::world::Violation;

pub const WIDTH: usize = hb::verif::GROUP_WIDTH;

/// f = 0: capacity_to_buckets(cap, size, ctrl_align)
pub fn check_capacity_to_buckets(cap: usize, size: usize, ctrl_align: usize) -> Result<(), Bad> {
    if cap == 0 {
        return Ok(());
    }
    match hb::verif::capacity_to_buckets(cap, size, ctrl_align) {
        Some(b) => {
            if !b.is_power_of_two() {
                bad!("C17", "buckets-not-power-of-two", "capacity_to_buckets({cap}, size {size}) = {b}");
            }
            let usable = hb::verif::bucket_mask_to_capacity(b - 1);
            if usable < cap {
                bad!("C17", "usable-capacity-below-request", "capacity_to_buckets({cap}, size {size}) = {b} buckets whose usable capacity is {usable}");
            }
            if usable >= b {
                bad!("C17", "no-empty-slot-guaranteed", "{b} buckets have usable capacity {usable}: no slot is guaranteed to stay empty");
            }
        }
        None => {
            // reporting overflow is accepted by C17's statement; for a clearly representable request it
            // contradicts C12 ("CapacityOverflow: the size is not representable")
            if (cap as u128) <= 1u128 << 40 {
                bad!("C12", "spurious-overflow", "capacity_to_buckets({cap}, size {size}) reported overflow");
            }
        }
    }
    Ok(())
}

/// f = 1: bucket_mask_to_capacity for 2^k buckets
pub fn check_bucket_mask_to_capacity(k: u32) -> Result<(), Bad> {
    let b = 1usize << k;
    let c = hb::verif::bucket_mask_to_capacity(b - 1);
    if c >= b {
        bad!("C17", "no-empty-slot-guaranteed", "bucket_mask_to_capacity({}) = {c} >= {b} buckets", b - 1);
    }
    if k >= 1 && c == 0 {
        bad!("C17", "zero-capacity", "{b} buckets have usable capacity 0");
    }
    if k >= 1 {
        let prev = hb::verif::bucket_mask_to_capacity((b >> 1) - 1);
        if prev > c {
            bad!("C17", "capacity-not-monotone", "capacity of {} buckets is {prev}, of {b} buckets {c}", b >> 1);
        }
    }
    Ok(())
}

/// f = 2: calculate_layout_for(size, ctrl_align = max(align, WIDTH), 2^k buckets)
pub fn check_layout(size: usize, align: usize, k: u32) -> Result<(), Bad> {
    if !align.is_power_of_two() || size % align != 0 || k >= usize::BITS {
        return Ok(()); // not the layout of any Rust type / not a bucket count
    }
    let buckets = 1usize << k;
    let ctrl_align = align.max(WIDTH);
    let exact_data = size as u128 * buckets as u128;
    match hb::verif::calculate_layout_for(size, ctrl_align, buckets) {
        Some((lsize, lalign, off)) => {
            if !lalign.is_power_of_two() || lalign < align || lalign < WIDTH {
                bad!("C17", "layout-alignment", "size {size} align {align} buckets 2^{k}: layout alignment {lalign}");
            }
            if (off as u128) < exact_data {
                bad!("C17", "ctrl-offset-too-small", "size {size} buckets 2^{k}: ctrl_offset {off} < {exact_data} bytes of elements (wrapped?)");
            }
            if off % lalign != 0 {
                bad!("C17", "ctrl-offset-misaligned", "ctrl_offset {off} is not a multiple of {lalign}");
            }
            let want = off as u128 + buckets as u128 + WIDTH as u128;
            if lsize as u128 != want {
                bad!("C17", "layout-size", "size {size} align {align} buckets 2^{k}: layout size {lsize}, elements+control bytes need {want}");
            }
            if lsize as u128 > isize::MAX as u128 - (lalign as u128 - 1) {
                bad!("C17", "layout-exceeds-isize-max", "layout size {lsize} with alignment {lalign} exceeds isize::MAX after padding");
            }
        }
        None => {
            // reporting overflow is accepted by the statement; spurious overflow on small sizes is not
            let padded = (exact_data + ctrl_align as u128 - 1) / ctrl_align as u128 * ctrl_align as u128;
            let total = padded + buckets as u128 + WIDTH as u128;
            if total <= 1u128 << 40 {
                bad!("C12", "spurious-layout-overflow", "size {size} align {align} buckets 2^{k}: {total} bytes are representable but overflow was reported");
            }
        }
    }
    Ok(())
}

/// f = 3: the probe sequence of `hash` in a table of 2^k buckets visits every group once.
/// Returns the number of positions examined.
pub fn check_probe(k: u32, hash: u64) -> Result<usize, Bad> {
    let buckets = 1usize << k;
    let mask = buckets - 1;
    let groups = (buckets / WIDTH).max(1);
    let pos = hb::verif::probe_positions(mask, hash, groups);
    if pos.len() != groups {
        bad!("C17", "probe-length", "2^{k} buckets: {} positions for {groups} groups", pos.len());
    }
    let start = (hash as usize) & mask;
    if pos[0] != start {
        bad!("C17", "probe-start", "2^{k} buckets, hash {hash:#x}: first position {} expected {start}", pos[0]);
    }
    let mut seen = vec![false; groups];
    for p in &pos {
        if *p > mask {
            bad!("C17", "probe-out-of-range", "position {p} in a table of {buckets} buckets");
        }
        if buckets >= WIDTH {
            if p % WIDTH != start % WIDTH {
                bad!("C17", "probe-not-congruent", "position {p} is not congruent to the start {start} modulo the group width");
            }
            let g = (p.wrapping_sub(start) & mask) / WIDTH;
            if seen[g] {
                bad!("C17", "probe-repeats-group", "2^{k} buckets, start {start}: group offset {g} visited twice within {groups} steps");
            }
            seen[g] = true;
        }
    }
    Ok(groups)
}

/// f = 4: TableLayout::new::<T>() for the layout family
pub fn check_typed_layouts() -> Result<usize, Bad> {
    fn one<E: crate::layouts::LElem>() -> Result<(), Bad> {
        let (s, a) = hb::verif::table_layout::<E>();
        if s != std::mem::size_of::<E>() || a != std::mem::align_of::<E>().max(WIDTH) {
            bad!("C17", "typed-layout", "TableLayout::new::<{}>() = (size {s}, ctrl_align {a})", E::name());
        }
        let (s2, a2) = hb::verif::table_layout::<(E, E)>();
        if s2 != std::mem::size_of::<(E, E)>() || a2 != std::mem::align_of::<(E, E)>().max(WIDTH) {
            bad!("C17", "typed-layout", "TableLayout::new::<({0},{0})>() = (size {s2}, ctrl_align {a2})", E::name());
        }
        Ok(())
    }
    for i in 0..crate::layouts::N_LAYOUTS {
        crate::with_layout!(i, one)?;
    }
    Ok(2 * crate::layouts::N_LAYOUTS as usize)
}

// ---------------------------------------------------------------------------------------------
// C18 primitives

fn bytewise(bytes: &[u8], pred: impl Fn(u8) -> bool) -> Vec<usize> {
    (0..WIDTH).filter(|i| pred(bytes[*i])).collect()
}

fn check_queries(name: &str, bytes: &[u8], q: (bool, Option<usize>, usize, usize), set: &[usize]) -> Result<(), Bad> {
    let (any, lowest, lz, tz) = q;
    let want_any = !set.is_empty();
    let want_lowest = set.first().copied();
    let want_tz = set.first().copied().unwrap_or(WIDTH);
    let want_lz = set.last().map(|m| WIDTH - 1 - m).unwrap_or(WIDTH);
    if any != want_any || lowest != want_lowest || lz != want_lz || tz != want_tz {
        bad!(
            "C18",
            "bitmask-queries",
            "{name} on {:02x?}: (any, lowest, leading_zeros, trailing_zeros) = ({any}, {:?}, {lz}, {tz}) want ({want_any}, {:?}, {want_lz}, {want_tz})",
            &bytes[..WIDTH],
            lowest,
            want_lowest
        );
    }
    Ok(())
}

/// All primitives on one group of bytes with one tag. `bytes.len() >= 16`.
pub fn check_group(bytes: &[u8], tag: u8) -> Result<(), Bad> {
    let tag = tag & 0x7f;
    let exact = bytewise(bytes, |b| b == tag);
    let got = hb::verif::group_match_tag(bytes, tag);
    if got.windows(2).any(|w| w[0] >= w[1]) {
        bad!("C18", "bitmask-order", "match_tag({tag:#x}) on {:02x?} yields positions {:?} not in ascending order", &bytes[..WIDTH], got);
    }
    if BACKEND == "generic" {
        // superset; every extra position holds tag ^ 1 and lies above a true match
        for e in &exact {
            if !got.contains(e) {
                bad!("C18", "match_tag-missed", "portable match_tag({tag:#x}) on {:02x?} = {:?} misses position {e}", &bytes[..WIDTH], got);
            }
        }
        for g in &got {
            if !exact.contains(g) {
                let ok = *g < WIDTH && bytes[*g] == tag ^ 1 && exact.iter().any(|e| e < g);
                if !ok {
                    bad!("C18", "match_tag-false-positive", "portable match_tag({tag:#x}) on {:02x?} = {:?}: position {g} is neither a match nor an allowed false positive", &bytes[..WIDTH], got);
                }
            }
        }
    } else if got != exact {
        bad!("C18", "match_tag", "match_tag({tag:#x}) on {:02x?} = {:?}, bytewise {:?}", &bytes[..WIDTH], got, exact);
    }
    let e = bytewise(bytes, |b| b == 0xFF);
    // only valid control bytes are meaningful for the special-byte primitives
    let valid = bytes[..WIDTH].iter().all(|b| *b & 0x80 == 0 || *b == 0xFF || *b == 0x80);
    if valid {
        let got = hb::verif::group_match_empty(bytes);
        if got != e {
            bad!("C18", "match_empty", "match_empty on {:02x?} = {:?}, bytewise {:?}", &bytes[..WIDTH], got, e);
        }
        check_queries("match_empty", bytes, hb::verif::group_match_empty_queries(bytes), &e)?;
        let ed = bytewise(bytes, |b| b & 0x80 != 0);
        let got = hb::verif::group_match_empty_or_deleted(bytes);
        if got != ed {
            bad!("C18", "match_empty_or_deleted", "match_empty_or_deleted on {:02x?} = {:?}, bytewise {:?}", &bytes[..WIDTH], got, ed);
        }
        check_queries("match_empty_or_deleted", bytes, hb::verif::group_match_empty_or_deleted_queries(bytes), &ed)?;
        let f = bytewise(bytes, |b| b & 0x80 == 0);
        let got = hb::verif::group_match_full(bytes);
        if got != f {
            bad!("C18", "match_full", "match_full on {:02x?} = {:?}, bytewise {:?}", &bytes[..WIDTH], got, f);
        }
        check_queries("match_full", bytes, hb::verif::group_match_full_queries(bytes), &f)?;
        let conv = hb::verif::group_convert_special(bytes);
        for i in 0..WIDTH {
            let want = if bytes[i] & 0x80 != 0 { 0xFF } else { 0x80 };
            if conv[i] != want {
                bad!("C18", "convert-special", "convert_special_to_empty_and_full_to_deleted on {:02x?} = {:02x?}: byte {i} should be {want:#x}", &bytes[..WIDTH], conv);
            }
        }
    }
    if hb::verif::tag_full(((tag as u64) << 57) | 0x1234) != tag {
        bad!("C18", "tag-full", "Tag::full of a hash with top bits {tag:#x} differs");
    }
    Ok(())
}

/// f = 5: a request made through the public API of a live table: `try_reserve(additional)` (and `reserve`
/// for small amounts) on a HashTable / HashSet holding `len` elements of a given element type. The
/// requested capacity is `len + additional`; the statement allows "reports overflow" or a table whose
/// usable capacity is at least the request, nothing else (no panic, no wrapped sum).
pub fn check_request(len: usize, additional: usize, etype: u64) -> Result<(), Bad> {
    fn go<T: Default>(len: usize, additional: usize, what: &str) -> Result<(), Bad> {
        use std::panic::{catch_unwind, AssertUnwindSafe};
        let total = len as u128 + additional as u128;
        let mk = || {
            let mut t: hb::HashTable<(u32, T)> = hb::HashTable::new();
            for i in 0..len as u32 {
                t.insert_unique(crate::plan::splitmix64(i as u64), (i, T::default()), |e| crate::plan::splitmix64(e.0 as u64));
            }
            t
        };
        let mut t = mk();
        let r = catch_unwind(AssertUnwindSafe(|| t.try_reserve(additional, |e| crate::plan::splitmix64(e.0 as u64))));
        match r {
            Err(_) => {
                let msg = crate::world::last_panic_message().unwrap_or_default();
                crate::world::clear_panic_messages();
                bad!("C17", "request-arithmetic-panicked", "HashTable<(u32, {what})> of {len}: try_reserve({additional}) panicked: {msg}");
            }
            Ok(Ok(())) => {
                if (t.capacity() as u128) < total {
                    bad!("C17", "usable-capacity-below-request", "HashTable<(u32, {what})> of {len}: try_reserve({additional}) = Ok but capacity() = {} < {total}", t.capacity());
                }
            }
            Ok(Err(_)) => {
                if total <= 1 << 16 {
                    bad!("C12", "spurious-overflow", "HashTable<(u32, {what})> of {len}: try_reserve({additional}) failed for a clearly representable request");
                }
            }
        }
        if t.len() != len {
            bad!("C17", "request-changed-len", "try_reserve({additional}) changed len from {len} to {}", t.len());
        }
        drop(t);
        if total <= 1 << 21 {
            // the infallible twin, through HashSet (same table code, different wrapper)
            let mut s: hb::HashSet<u32> = (0..len as u32).collect();
            let r = catch_unwind(AssertUnwindSafe(|| s.reserve(additional)));
            if r.is_err() {
                let msg = crate::world::last_panic_message().unwrap_or_default();
                crate::world::clear_panic_messages();
                bad!("C17", "request-arithmetic-panicked", "HashSet<u32> of {len}: reserve({additional}) panicked: {msg}");
            }
            if (s.capacity() as u128) < total {
                bad!("C17", "usable-capacity-below-request", "HashSet<u32> of {len}: reserve({additional}) left capacity() = {} < {total}", s.capacity());
            }
        }
        Ok(())
    }
    match etype % 4 {
        0 => go::<()>(len, additional, "()"),
        1 => go::<u8>(len, additional, "u8"),
        2 => go::<u64>(len, additional, "u64"),
        _ => go::<[u64; 24]>(len, additional, "[u64; 24]"),
    }
}

/// Replay entry: cases of kind "arith" (C17) and "prim" (C18 primitives).
pub fn run_case(case: &Case) -> Outcome {
    let mut out = Outcome::default();
    let r: Result<(), Bad> = match case.kind.as_str() {
        "arith" => match case.h("f") {
            0 => check_capacity_to_buckets(case.h("cap") as usize, case.h("size") as usize, (case.h("align") as usize).max(WIDTH)),
            1 => check_bucket_mask_to_capacity(case.h("k") as u32),
            2 => {
                if case.h("k") >= 64 {
                    // crash dump of the enumerating runner: all bucket counts for this (size, align)
                    (0..64u32).try_for_each(|k| check_layout(case.h("size") as usize, case.h("align") as usize, k))
                } else {
                    check_layout(case.h("size") as usize, case.h("align") as usize, case.h("k") as u32)
                }
            }
            3 => check_probe(case.h("k") as u32, case.h("hash")).map(|_| ()),
            5 => check_request(case.h("len") as usize, case.h("additional") as usize, case.h("etype")),
            _ => check_typed_layouts().map(|_| ()),
        },
        _ => {
            let mut bytes = [0u8; 16];
            bytes[..8].copy_from_slice(&case.h("lo").to_le_bytes());
            bytes[8..].copy_from_slice(&case.h("hi").to_le_bytes());
            check_group(&bytes, case.h("tag") as u8)
        }
    };
    out.steps = 1;
    if let Err(b) = r {
        out.violation = Some(Violation { property: b.0, kind: b.1.to_string(), step: 0, detail: b.2 });
    }
    out
}
