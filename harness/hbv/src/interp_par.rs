// C19: rayon parallel iteration. Included once per back-end.
// Elements are tracked by an atomics-based registry (drop counts and delivery counts per serial);
// the allocator is an atomics-based pass-through ledger (rayon adaptors need `A: Sync`).

use crate::case::{frac_to, Case, Op};
use crate::dump::{self, Bad};
use crate::outcome::Outcome;
use crate::par_support::{pool, Reg, SyncAlloc, RK};
use crate::plan::{Plan, PlanBuildHasher};
use crate::specs::par as ops;
use crate::world::{self, Violation};
use rayon::prelude::*;
use std::collections::BTreeSet;
use std::sync::atomic::{AtomicUsize, Ordering};
use std::sync::{Arc, Mutex};

type PMap = hb::HashMap<RK, u64, PlanBuildHasher, SyncAlloc>;
type PSet = hb::HashSet<RK, PlanBuildHasher, SyncAlloc>;
type PTable = hb::HashTable<RK, SyncAlloc>;

const THREADS: [usize; 7] = [1, 2, 3, 4, 8, 16, 64];

struct St {
    reg: Arc<Reg>,
    alloc: SyncAlloc,
    plan: Plan,
    map: PMap,
    sets: [PSet; 2],
    table: PTable,
    /// model: ids per collection (map ids with values, set ids, table ids as multiset)
    m_map: Vec<(u32, u64)>,
    m_sets: [BTreeSet<u32>; 2],
    m_table: Vec<u32>,
    labels: u32,
}

fn sorted<T: Ord>(mut v: Vec<T>) -> Vec<T> {
    v.sort();
    v
}

impl St {
    fn key(&self, id: u32) -> RK {
        RK::new(id, &self.reg)
    }

    fn table_insert(&mut self, id: u32) {
        let plan = self.plan;
        let k = self.key(id);
        self.table.insert_unique(plan.hash(id as u64), k, move |e| plan.hash(e.id as u64));
        self.m_table.push(id);
    }

    fn build(&mut self, op: &Op) -> Result<(), Bad> {
        let a = op.a;
        match op.code {
            ops::INSERT => {
                let id = (a[0] % 5000) as u32;
                match a[1] % 4 {
                    0 => {
                        let k = self.key(id);
                        self.map.insert(k, a[2]);
                        if let Some(e) = self.m_map.iter_mut().find(|e| e.0 == id) {
                            e.1 = a[2];
                        } else {
                            self.m_map.push((id, a[2]));
                        }
                    }
                    1 | 2 => {
                        let w = (a[1] % 4 - 1) as usize;
                        let k = self.key(id);
                        self.sets[w].insert(k);
                        self.m_sets[w].insert(id);
                    }
                    _ => self.table_insert(id),
                }
            }
            ops::FILL => {
                let n = (a[0] % 3001) as u32;
                let base = (a[2] % 4000) as u32;
                for i in 0..n {
                    let id = base + i;
                    match a[1] % 4 {
                        0 => {
                            if !self.m_map.iter().any(|e| e.0 == id) {
                                let k = self.key(id);
                                self.map.insert(k, id as u64);
                                self.m_map.push((id, id as u64));
                            }
                        }
                        1 | 2 => {
                            let w = (a[1] % 4 - 1) as usize;
                            let k = self.key(id);
                            self.sets[w].insert(k);
                            self.m_sets[w].insert(id);
                        }
                        _ => self.table_insert(id),
                    }
                }
            }
            ops::REMOVE_RANGE => {
                let lo = (a[0] % 5000) as u32;
                let hi = lo + (a[2] % 1500) as u32;
                match a[1] % 4 {
                    0 => {
                        self.map.retain(|k, _| k.id < lo || k.id >= hi);
                        self.m_map.retain(|e| e.0 < lo || e.0 >= hi);
                    }
                    1 | 2 => {
                        let w = (a[1] % 4 - 1) as usize;
                        self.sets[w].retain(|k| k.id < lo || k.id >= hi);
                        self.m_sets[w].retain(|e| *e < lo || *e >= hi);
                    }
                    _ => {
                        self.table.retain(|k| k.id < lo || k.id >= hi);
                        self.m_table.retain(|e| *e < lo || *e >= hi);
                    }
                }
            }
            ops::REMOVE_STRIDE => {
                let m = 2 + (a[0] % 7) as u32;
                match a[1] % 4 {
                    0 => {
                        self.map.retain(|k, _| k.id % m != 0);
                        self.m_map.retain(|e| e.0 % m != 0);
                    }
                    1 | 2 => {
                        let w = (a[1] % 4 - 1) as usize;
                        self.sets[w].retain(|k| k.id % m != 0);
                        self.m_sets[w].retain(|e| *e % m != 0);
                    }
                    _ => {
                        self.table.retain(|k| k.id % m != 0);
                        self.m_table.retain(|e| *e % m != 0);
                    }
                }
            }
            ops::PAR => self.par_op(&a)?,
            _ => {}
        }
        Ok(())
    }

    fn validate_table_like(d: &dump::Dump, what: &str) -> Result<(), Bad> {
        d.validate(false).map_err(|b| ("C19", b.1, format!("{what}: {}", b.2)))
    }

    /// delivered multiset must equal `want` exactly (each element exactly once)
    fn exact(got: Vec<u32>, want: Vec<u32>, what: &str) -> Result<(), Bad> {
        let (g, w) = (sorted(got), sorted(want));
        if g != w {
            let dup = g.windows(2).find(|x| x[0] == x[1]).map(|x| x[0]);
            bad!("C19", "delivered-multiset", "{what}: consumer received {} elements, collection holds {}; first duplicate {:?}", g.len(), w.len(), dup);
        }
        Ok(())
    }

    fn par_op(&mut self, a: &[u64; crate::case::MAX_ARGS]) -> Result<(), Bad> {
        let kind = [0u64, 1, 2, 3, 4, 5, 6, 7, 8, 9, 10, 11, 12, 9, 10, 6][(a[0] % 16) as usize];
        let threads = THREADS[(a[1] % 7) as usize];
        let p = pool(threads);
        let stop = a[2];
        let tree = a[3];
        let reg = self.reg.clone();
        match kind {
            0 => {
                // par_iter / par_keys / par_values on the map
                let want_ids: Vec<u32> = self.m_map.iter().map(|e| e.0).collect();
                let map = &self.map;
                let got: Vec<(u32, u64)> = p.install(|| map.par_iter().map(|(k, v)| (k.id, *v)).collect());
                Self::exact(got.iter().map(|e| e.0).collect(), want_ids.clone(), "HashMap::par_iter")?;
                if sorted(got) != sorted(self.m_map.clone()) {
                    bad!("C19", "par_iter-values", "HashMap::par_iter delivered different values");
                }
                let keys: Vec<u32> = p.install(|| map.par_keys().map(|k| k.id).collect());
                Self::exact(keys, want_ids, "HashMap::par_keys")?;
                let vals: Vec<u64> = p.install(|| map.par_values().copied().collect());
                if sorted(vals) != sorted(self.m_map.iter().map(|e| e.1).collect()) {
                    bad!("C19", "par_values", "HashMap::par_values delivered a different multiset");
                }
            }
            1 => {
                // par_iter_mut / par_values_mut: every value incremented exactly once
                let map = &mut self.map;
                p.install(|| map.par_iter_mut().for_each(|(_, v)| *v += 1));
                p.install(|| map.par_values_mut().for_each(|v| *v += 10));
                for e in self.m_map.iter_mut() {
                    e.1 += 11;
                }
                let got: Vec<(u32, u64)> = self.map.iter().map(|(k, v)| (k.id, *v)).collect();
                if sorted(got) != sorted(self.m_map.clone()) {
                    bad!("C19", "par_iter_mut", "after par_iter_mut/par_values_mut the values are not each incremented exactly once");
                }
            }
            2 => {
                let set = &self.sets[0];
                let got: Vec<u32> = p.install(|| set.par_iter().map(|k| k.id).collect());
                Self::exact(got, self.m_sets[0].iter().copied().collect(), "HashSet::par_iter")?;
                let t = &self.table;
                let got: Vec<u32> = p.install(|| t.par_iter().map(|k| k.id).collect());
                Self::exact(got, self.m_table.clone(), "HashTable::par_iter")?;
            }
            3 => {
                // table par_iter_mut
                let t = &mut self.table;
                let n = AtomicUsize::new(0);
                p.install(|| {
                    t.par_iter_mut().for_each(|k| {
                        k.touch();
                        n.fetch_add(1, Ordering::Relaxed);
                    })
                });
                if n.load(Ordering::Relaxed) != self.m_table.len() {
                    bad!("C19", "par_iter_mut-count", "HashTable::par_iter_mut visited {} of {} elements", n.load(Ordering::Relaxed), self.m_table.len());
                }
                for k in self.table.iter() {
                    if k.touched() != 1 {
                        bad!("C19", "par_iter_mut-twice", "element {} was visited {} times by par_iter_mut", k.id, k.touched());
                    }
                }
                for k in self.table.iter_mut() {
                    k.untouch();
                }
            }
            4 | 5 | 6 => {
                // par_drain: full or with an early stop
                let n_total;
                let delivered: Vec<u32>;
                // one drain in five: the consumer panics at the limit-th item (an early stop by unwinding)
                let panics = a[3] % 5 == 4;
                let early = stop % 3 != 0 || panics;
                let limit = if early { 1 + (stop as usize / 3) % 64 } else { usize::MAX };
                let serials_before: Vec<u32>;
                let what;
                macro_rules! drive {
                    ($par:expr, $id:expr) => {{
                        let sink = Mutex::new(Vec::new());
                        let cnt = AtomicUsize::new(0);
                        if panics {
                            // the consumer panics once `limit` items were seen; rayon re-raises the panic in
                            // the caller when the other workers have finished
                            let r = std::panic::catch_unwind(std::panic::AssertUnwindSafe(|| {
                                p.install(|| {
                                    $par.for_each(|x| {
                                        sink.lock().unwrap_or_else(|e| e.into_inner()).push($id(&x));
                                        if cnt.fetch_add(1, Ordering::SeqCst) + 1 == limit {
                                            drop(x);
                                            std::panic::panic_any(world::Injected);
                                        }
                                    })
                                })
                            }));
                            if let Err(e) = r {
                                if e.downcast_ref::<world::Injected>().is_none() {
                                    std::panic::resume_unwind(e);
                                }
                            }
                        } else {
                        p.install(|| {
                            if !early {
                                $par.for_each(|x| sink.lock().unwrap().push($id(&x)));
                            } else if stop % 3 == 1 {
                                // try_for_each: stop once `limit` items were seen
                                let _ = $par.try_for_each(|x| {
                                    sink.lock().unwrap().push($id(&x));
                                    if cnt.fetch_add(1, Ordering::SeqCst) + 1 >= limit { Err(()) } else { Ok(()) }
                                });
                            } else {
                                // find_any
                                let f = $par.find_any(|x| {
                                    sink.lock().unwrap().push($id(x));
                                    cnt.fetch_add(1, Ordering::SeqCst) + 1 >= limit
                                });
                                drop(f);
                            }
                        });
                        }
                        sink.into_inner().unwrap_or_else(|e| e.into_inner())
                    }};
                }
                match kind {
                    4 => {
                        what = "HashMap::par_drain";
                        n_total = self.m_map.len();
                        serials_before = self.map.keys().map(|k| k.serial).collect();
                        delivered = drive!(self.map.par_drain(), |x: &(RK, u64)| x.0.id);
                        self.m_map.clear();
                        if !self.map.is_empty() {
                            bad!("C19", "par_drain-not-empty", "{what}: len {} afterwards", self.map.len());
                        }
                        Self::validate_table_like(&conv_dump(self.map.verif_dump()), what)?;
                    }
                    5 => {
                        what = "HashSet::par_drain";
                        n_total = self.m_sets[0].len();
                        serials_before = self.sets[0].iter().map(|k| k.serial).collect();
                        delivered = drive!(self.sets[0].par_drain(), |x: &RK| x.id);
                        self.m_sets[0].clear();
                        if !self.sets[0].is_empty() {
                            bad!("C19", "par_drain-not-empty", "{what}: len {} afterwards", self.sets[0].len());
                        }
                        Self::validate_table_like(&conv_dump(self.sets[0].verif_dump()), what)?;
                    }
                    _ => {
                        what = "HashTable::par_drain";
                        n_total = self.m_table.len();
                        serials_before = self.table.iter().map(|k| k.serial).collect();
                        delivered = drive!(self.table.par_drain(), |x: &RK| x.id);
                        self.m_table.clear();
                        if !self.table.is_empty() {
                            bad!("C19", "par_drain-not-empty", "{what}: len {} afterwards", self.table.len());
                        }
                        Self::validate_table_like(&conv_dump(self.table.verif_dump()), what)?;
                    }
                }
                if early && !delivered.is_empty() && delivered.len() < n_total {
                    self.labels |= dump::L_X1;
                }
                if !early && delivered.len() != n_total {
                    bad!("C19", "par_drain-count", "{what}: {} of {n_total} elements delivered", delivered.len());
                }
                if sorted(delivered.clone()).windows(2).any(|w| w[0] == w[1]) && kind != 6 {
                    bad!("C19", "delivered-twice", "{what}: an element was delivered twice");
                }
                // every element that was in the collection is dropped exactly once by now
                for s in serials_before {
                    let d = reg.drops(s);
                    if d != 1 {
                        bad!("C19", "drain-drop-count", "{what} (threads {threads}, stop mode {}): element serial {s} was dropped {d} times (delivered {} of {n_total})", stop % 3, delivered.len());
                    }
                }
            }
            7 | 8 => {
                // into_par_iter: full or early stop
                let ipanics = a[3] % 5 == 4;
                let early = stop % 2 == 1 || ipanics;
                let limit = 1 + (stop as usize / 2) % 64;
                let (n_total, serials, delivered): (usize, Vec<u32>, Vec<u32>);
                let alloc = self.alloc.clone();
                let plan = self.plan;
                if kind == 7 {
                    let old = std::mem::replace(&mut self.map, PMap::with_hasher_in(PlanBuildHasher::new(plan), alloc));
                    n_total = self.m_map.len();
                    self.m_map.clear();
                    serials = old.keys().map(|k| k.serial).collect();
                    let cnt = AtomicUsize::new(0);
                    delivered = if ipanics {
                        // the consumer panics at the limit-th item: everything is still dropped exactly once
                        let sink = Mutex::new(Vec::new());
                        let r = std::panic::catch_unwind(std::panic::AssertUnwindSafe(|| {
                            p.install(|| {
                                old.into_par_iter().for_each(|x| {
                                    sink.lock().unwrap_or_else(|e| e.into_inner()).push(x.0.id);
                                    if cnt.fetch_add(1, Ordering::SeqCst) + 1 == limit {
                                        drop(x);
                                        std::panic::panic_any(world::Injected);
                                    }
                                })
                            })
                        }));
                        if let Err(e) = r {
                            if e.downcast_ref::<world::Injected>().is_none() {
                                std::panic::resume_unwind(e);
                            }
                        }
                        sink.into_inner().unwrap_or_else(|e| e.into_inner())
                    } else { p.install(|| {
                        if early {
                            let sink = Mutex::new(Vec::new());
                            let f = old.into_par_iter().find_any(|x| {
                                sink.lock().unwrap().push(x.0.id);
                                cnt.fetch_add(1, Ordering::SeqCst) + 1 >= limit
                            });
                            drop(f);
                            sink.into_inner().unwrap()
                        } else {
                            old.into_par_iter().map(|(k, _)| k.id).collect()
                        }
                    }) };
                } else {
                    let old = std::mem::replace(&mut self.table, PTable::new_in(alloc));
                    n_total = self.m_table.len();
                    self.m_table.clear();
                    serials = old.iter().map(|k| k.serial).collect();
                    let cnt = AtomicUsize::new(0);
                    delivered = if ipanics {
                        // the consumer panics at the limit-th item: everything is still dropped exactly once
                        let sink = Mutex::new(Vec::new());
                        let r = std::panic::catch_unwind(std::panic::AssertUnwindSafe(|| {
                            p.install(|| {
                                old.into_par_iter().for_each(|x| {
                                    sink.lock().unwrap_or_else(|e| e.into_inner()).push(x.id);
                                    if cnt.fetch_add(1, Ordering::SeqCst) + 1 == limit {
                                        drop(x);
                                        std::panic::panic_any(world::Injected);
                                    }
                                })
                            })
                        }));
                        if let Err(e) = r {
                            if e.downcast_ref::<world::Injected>().is_none() {
                                std::panic::resume_unwind(e);
                            }
                        }
                        sink.into_inner().unwrap_or_else(|e| e.into_inner())
                    } else { p.install(|| {
                        if early {
                            let sink = Mutex::new(Vec::new());
                            let f = old.into_par_iter().find_any(|x| {
                                sink.lock().unwrap().push(x.id);
                                cnt.fetch_add(1, Ordering::SeqCst) + 1 >= limit
                            });
                            drop(f);
                            sink.into_inner().unwrap()
                        } else {
                            old.into_par_iter().map(|k| k.id).collect()
                        }
                    }) };
                }
                if early && !delivered.is_empty() && delivered.len() < n_total {
                    self.labels |= dump::L_X1;
                }
                if !early && delivered.len() != n_total {
                    bad!("C19", "into_par_iter-count", "into_par_iter delivered {} of {n_total}", delivered.len());
                }
                for s in serials {
                    let d = reg.drops(s);
                    if d != 1 {
                        bad!("C19", "into_par_iter-drop-count", "into_par_iter (threads {threads}, early {early}): element serial {s} dropped {d} times");
                    }
                }
            }
            9 => {
                // explicit split tree over RawIterRange (hook)
                let d = conv_dump(self.table.verif_dump());
                let mut bits = tree;
                let mut nodes = 0;
                let leaves = self.table.verif_split_leaves(&mut |path: &[bool]| {
                    nodes += 1;
                    let b = bits & 1 == 1 || path.len() < (tree >> 60) as usize % 4;
                    bits = bits.rotate_right(1);
                    b && path.len() < 12
                });
                if leaves.len() >= 3 {
                    self.labels |= dump::L_X2;
                }
                let mut all: Vec<usize> = leaves.iter().flatten().copied().collect();
                all.sort_unstable();
                let want = d.full_indices();
                if all != want {
                    let dup = all.windows(2).find(|w| w[0] == w[1]).map(|w| w[0]);
                    bad!("C19", "split-leaves-not-a-partition", "{} leaves cover {} bucket indices, the table has {} FULL buckets; duplicate {:?}", leaves.len(), all.len(), want.len(), dup);
                }
            }
            10 => {
                // explicit tree over ParDrainProducer: split / fold with a folder that fills up / drop
                let n_total = self.m_table.len();
                let serials: Vec<u32> = self.table.iter().map(|k| k.serial).collect();
                let mut bits = tree;
                let mut leaves = 0;
                let mut delivered: Vec<u32> = Vec::new();
                self.table.verif_par_drain_tree(
                    &mut |path: &[bool]| {
                        let r = bits % 8;
                        bits = bits.rotate_right(3);
                        if (r < 5 || path.len() < 2) && path.len() < 10 {
                            hb::verif::DrainNode::Split
                        } else {
                            leaves += 1;
                            if r == 7 {
                                hb::verif::DrainNode::Drop
                            } else {
                                hb::verif::DrainNode::Fold(1 + (stop as usize % 40) * (r as usize).saturating_sub(4))
                            }
                        }
                    },
                    &mut |k: RK| delivered.push(k.id),
                );
                self.m_table.clear();
                if leaves >= 3 {
                    self.labels |= dump::L_X2;
                }
                if !delivered.is_empty() && delivered.len() < n_total {
                    self.labels |= dump::L_X1;
                }
                if !self.table.is_empty() {
                    bad!("C19", "par_drain-not-empty", "driven ParDrainProducer tree: len {} afterwards", self.table.len());
                }
                Self::validate_table_like(&conv_dump(self.table.verif_dump()), "driven ParDrainProducer tree")?;
                for s in serials {
                    let d = reg.drops(s);
                    if d != 1 {
                        bad!("C19", "drain-drop-count", "driven ParDrainProducer tree: element serial {s} dropped {d} times ({} of {n_total} delivered, {leaves} leaves)", delivered.len());
                    }
                }
            }
            11 => {
                // par_extend / from_par_iter, with repeated keys carrying different values: as in the
                // sequential extend / collect, the LAST occurrence in input order wins
                let n = (stop % 3000) as u32;
                let modulo = 1 + (tree % 900) as u32;
                let pairs: Vec<(u32, u64)> = (0..n).map(|i| (6000 + i.wrapping_mul(7) % modulo, 1 + i as u64)).collect();
                if n > modulo && threads > 1 {
                    self.labels |= dump::L_X1;
                }
                let regc = reg.clone();
                let items: Vec<(RK, u64)> = pairs.iter().map(|(id, v)| (RK::new(*id, &regc), *v)).collect();
                let map = &mut self.map;
                p.install(|| map.par_extend(items));
                for (id, v) in &pairs {
                    if let Some(e) = self.m_map.iter_mut().find(|e| e.0 == *id) {
                        e.1 = *v;
                    } else {
                        self.m_map.push((*id, *v));
                    }
                }
                let got: Vec<(u32, u64)> = self.map.iter().map(|(k, v)| (k.id, *v)).collect();
                if sorted(got.clone()) != sorted(self.m_map.clone()) {
                    let (g, w) = (sorted(got), sorted(self.m_map.clone()));
                    let diff = g.iter().zip(w.iter()).find(|(x, y)| x != y);
                    bad!("C19", "par_extend", "par_extend of {n} pairs over {modulo} keys differs from sequential extend (last value wins); first difference (got, want) = {:?}", diff);
                }
                world::with(|w| w.default_plan = self.plan);
                // plain Copy elements: from_par_iter, then the by-reference ParallelExtend impls
                let half = pairs.len() / 2;
                let mut pm: hb::HashMap<u32, u64, PlanBuildHasher> = p.install(|| pairs[..half].par_iter().copied().collect());
                let mut seq: std::collections::BTreeMap<u32, u64> = pairs[..half].iter().copied().collect();
                if sorted(pm.iter().map(|(k, v)| (*k, *v)).collect::<Vec<_>>()) != seq.iter().map(|(k, v)| (*k, *v)).collect::<Vec<_>>() || pm.len() != seq.len() {
                    bad!("C19", "from_par_iter", "HashMap::from_par_iter of {half} pairs over {modulo} keys differs from the sequential collect (last value wins)");
                }
                let second = &pairs[half..];
                p.install(|| pm.par_extend(second.par_iter().map(|e| (&e.0, &e.1))));
                seq.extend(second.iter().copied());
                if sorted(pm.iter().map(|(k, v)| (*k, *v)).collect::<Vec<_>>()) != seq.iter().map(|(k, v)| (*k, *v)).collect::<Vec<_>>() || pm.len() != seq.len() {
                    bad!("C19", "par_extend", "by-reference par_extend of {} pairs over {modulo} keys differs from the sequential extend (last value wins)", second.len());
                }
                let ids: Vec<u32> = self.m_sets[0].iter().copied().collect();
                let regc = reg.clone();
                let s2: hb::HashSet<RK, PlanBuildHasher> = p.install(|| ids.par_iter().map(|id| RK::new(*id, &regc)).collect());
                let got: BTreeSet<u32> = s2.iter().map(|k| k.id).collect();
                if got != self.m_sets[0] || s2.len() != self.m_sets[0].len() {
                    bad!("C19", "from_par_iter", "from_par_iter result differs from the sequential set");
                }
                let mut ps: hb::HashSet<u32, PlanBuildHasher> = p.install(|| pairs[..half].par_iter().map(|e| e.0).collect());
                p.install(|| ps.par_extend(second.par_iter().map(|e| &e.0)));
                let want: BTreeSet<u32> = pairs.iter().map(|e| e.0).collect();
                if ps.iter().copied().collect::<BTreeSet<u32>>() != want || ps.len() != want.len() {
                    bad!("C19", "par_extend", "by-reference par_extend on a HashSet differs from the sequential extend");
                }
                // the same into EMPTY targets (fresh, and allocated then cleared)
                let mut e1: hb::HashSet<u32, PlanBuildHasher> = Default::default();
                p.install(|| e1.par_extend(pairs.par_iter().map(|e| &e.0)));
                let mut e2: hb::HashSet<u32, PlanBuildHasher> = hb::HashSet::with_capacity_and_hasher(64, Default::default());
                e2.insert(1);
                e2.clear();
                p.install(|| e2.par_extend(pairs.par_iter().map(|e| e.0)));
                let mut e3: hb::HashMap<u32, u64, PlanBuildHasher> = Default::default();
                p.install(|| e3.par_extend(pairs.par_iter().map(|e| (&e.0, &e.1))));
                let want_map: std::collections::BTreeMap<u32, u64> = pairs.iter().copied().collect();
                if e1.len() != want.len() || e1.iter().copied().collect::<BTreeSet<u32>>() != want || e2.len() != want.len() || e2.iter().copied().collect::<BTreeSet<u32>>() != want {
                    bad!("C19", "par_extend", "par_extend into an empty HashSet: {} / {} elements, sequential extend gives {}", e1.len(), e2.len(), want.len());
                }
                if e3.len() != want_map.len() || sorted(e3.iter().map(|(k, v)| (*k, *v)).collect::<Vec<_>>()) != want_map.iter().map(|(k, v)| (*k, *v)).collect::<Vec<_>>() {
                    bad!("C19", "par_extend", "by-reference par_extend into an empty HashMap differs from the sequential extend");
                }
                // par_drain created and dropped without being driven: the collection is emptied all the
                // same (elements with and without drop glue), and stays usable
                let n_before = pm.len();
                drop(pm.par_drain());
                drop(ps.par_drain());
                let mut pt: hb::HashTable<u64> = hb::HashTable::new();
                for (k, v) in &pairs {
                    pt.insert_unique(self.plan.hash(*k as u64), *v, |x| *x);
                }
                drop(pt.par_drain());
                if !pm.is_empty() || !ps.is_empty() || !pt.is_empty() {
                    bad!("C19", "par_drain-not-empty", "par_drain dropped without being driven leaves {} / {} / {} elements (map of {n_before}, set, table)", pm.len(), ps.len(), pt.len());
                }
                pm.insert(1, 2);
                if pm.get(&1) != Some(&2) || pm.len() != 1 {
                    bad!("C19", "par_drain-not-usable", "map unusable after an undriven par_drain");
                }
            }
            _ => {
                // parallel set operations and predicates vs sequential counterparts
                let (a_, b_) = (&self.sets[0], &self.sets[1]);
                let (ma, mb) = (&self.m_sets[0], &self.m_sets[1]);
                if !ma.is_empty() && !mb.is_empty() && !ma.is_subset(mb) && !mb.is_subset(ma) {
                    self.labels |= dump::L_X3;
                }
                let u: Vec<u32> = p.install(|| a_.par_union(b_).map(|k| k.id).collect());
                Self::exact(u, ma.union(mb).copied().collect(), "par_union")?;
                let i: Vec<u32> = p.install(|| a_.par_intersection(b_).map(|k| k.id).collect());
                Self::exact(i, ma.intersection(mb).copied().collect(), "par_intersection")?;
                let d: Vec<u32> = p.install(|| a_.par_difference(b_).map(|k| k.id).collect());
                Self::exact(d, ma.difference(mb).copied().collect(), "par_difference")?;
                let sd: Vec<u32> = p.install(|| a_.par_symmetric_difference(b_).map(|k| k.id).collect());
                Self::exact(sd, ma.symmetric_difference(mb).copied().collect(), "par_symmetric_difference")?;
                let preds = p.install(|| (a_.par_is_disjoint(b_), a_.par_is_subset(b_), a_.par_is_superset(b_), a_.par_eq(b_), b_.par_is_subset(a_)));
                let want = (ma.is_disjoint(mb), ma.is_subset(mb), ma.is_superset(mb), ma == mb, mb.is_subset(ma));
                if preds != want {
                    bad!("C19", "par-predicates", "(disjoint, subset, superset, eq, rsubset) = {:?}, sequential/mathematical {:?}", preds, want);
                }
                let m1 = &self.map;
                let mut m2 = self.map.clone();
                if !p.install(|| m1.par_eq(&m2)) || !p.install(|| m2.par_eq(m1)) {
                    bad!("C19", "par_eq", "a map is not par_eq to its clone");
                }
                // same keys, one value differs; then same length, one key differs: sequential == is the oracle
                if !self.m_map.is_empty() {
                    let pick = self.m_map[frac_to(stop & 0xffff, self.m_map.len() - 1)].0;
                    if let Some((_, v)) = m2.iter_mut().find(|(k, _)| k.id == pick) {
                        *v = v.wrapping_add(1);
                    }
                    let (pe, pe2, se) = (p.install(|| m1.par_eq(&m2)), p.install(|| m2.par_eq(m1)), *m1 == m2);
                    if pe != se || pe2 != se || se {
                        bad!("C19", "par_eq", "maps with equal keys and one differing value: par_eq {pe}/{pe2}, == {se}");
                    }
                    let regc = reg.clone();
                    let gone: Vec<RK> = m2.extract_if(|k, _| k.id == pick).map(|e| e.0).collect();
                    drop(gone);
                    m2.insert(RK::new(900_000 + pick, &regc), 0);
                    let (pe, pe2, se) = (p.install(|| m1.par_eq(&m2)), p.install(|| m2.par_eq(m1)), *m1 == m2);
                    if pe != se || pe2 != se || se {
                        bad!("C19", "par_eq", "maps of equal length with one differing key: par_eq {pe}/{pe2}, == {se}");
                    }
                }
            }
        }
        Ok(())
    }

    fn check(&self) -> Result<(), Bad> {
        let got: Vec<(u32, u64)> = self.map.iter().map(|(k, v)| (k.id, *v)).collect();
        if sorted(got) != sorted(self.m_map.clone()) {
            bad!("C19", "contents-differ", "map contents differ from the model");
        }
        for w in 0..2 {
            let got: BTreeSet<u32> = self.sets[w].iter().map(|k| k.id).collect();
            if got != self.m_sets[w] || self.sets[w].len() != self.m_sets[w].len() {
                bad!("C19", "contents-differ", "set {w} contents differ from the model");
            }
        }
        let got: Vec<u32> = self.table.iter().map(|k| k.id).collect();
        if sorted(got) != sorted(self.m_table.clone()) {
            bad!("C19", "contents-differ", "table contents differ from the model");
        }
        Self::validate_table_like(&conv_dump(self.map.verif_dump()), "map")?;
        Self::validate_table_like(&conv_dump(self.table.verif_dump()), "table")?;
        if self.reg.any_double_drop() {
            bad!("C19", "double-drop", "an element was dropped more than once");
        }
        Ok(())
    }
}

pub fn run_case(case: &Case) -> Outcome {
    world::install_panic_hook();
    world::reset();
    let plan = Plan {
        pos_rule: case.h("pos") as u32,
        pos_param: case.h("pos_p") as u32,
        tag_rule: case.h("tag") as u32,
        tag_param: case.h("tag_p") as u32,
        seed: case.h("seed"),
    };
    world::with(|w| w.default_plan = plan);
    let reg = Arc::new(Reg::new());
    let alloc = SyncAlloc::new();
    let mk_set = || PSet::with_hasher_in(PlanBuildHasher::new(plan), alloc.clone());
    let mut st = St {
        reg: reg.clone(),
        alloc: alloc.clone(),
        plan,
        map: PMap::with_hasher_in(PlanBuildHasher::new(plan), alloc.clone()),
        sets: [mk_set(), mk_set()],
        table: PTable::new_in(alloc.clone()),
        m_map: vec![],
        m_sets: [BTreeSet::new(), BTreeSet::new()],
        m_table: vec![],
        labels: 0,
    };
    let mut out = Outcome::default();
    let mut violation: Option<Violation> = None;
    for (i, op) in case.ops.iter().enumerate() {
        world::set_step(i);
        out.steps = i + 1;
        world::clear_panic_messages();
        let r = std::panic::catch_unwind(std::panic::AssertUnwindSafe(|| st.build(op).and_then(|()| st.check())));
        match r {
            Ok(Ok(())) => {}
            Ok(Err(b)) => {
                violation = Some(Violation { property: b.0, kind: b.1.to_string(), step: i, detail: b.2 });
                break;
            }
            Err(p) => {
                drop(p);
                let msg = world::last_panic_message().unwrap_or_default();
                violation = Some(Violation { property: "C19", kind: "unexpected-panic".into(), step: i, detail: msg });
                break;
            }
        }
    }
    out.labels = st.labels;
    if violation.is_some() {
        std::mem::forget(st);
        out.violation = violation;
        return out;
    }
    let n = reg.created();
    drop(st);
    // every element ever created is dropped exactly once; no block remains
    for s in 0..n {
        let d = reg.drops(s);
        if d != 1 {
            out.violation = Some(Violation { property: "C19", kind: "final-drop-count".into(), step: out.steps, detail: format!("element serial {s} was dropped {d} times by the end of the case") });
            return out;
        }
    }
    if alloc.live_blocks() != 0 {
        out.violation = Some(Violation { property: "C19", kind: "block-leaked".into(), step: out.steps, detail: format!("{} blocks still allocated after the collections were dropped", alloc.live_blocks()) });
    }
    out
}
