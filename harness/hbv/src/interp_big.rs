// "big" cases: collections with more than 2^16 (optionally more than 2^17) elements, so that counters
// narrower than usize, group counts above 4096 and the like show. No per-step model: every statement
// checked here is a counting statement over ids 0..n. Included once per back-end.
//
// header: coll (0 map, 1 set, 2 table), n_extra (elements above 65 536), plan, keep (per cent kept by
// retain), scale (0: 2^16, 1: 2^17). One case costs a few milliseconds.

use crate::alloc::{self, CheckAlloc};
use crate::case::Case;
use crate::dump::Bad;
use crate::outcome::Outcome;
use crate::plan::{Plan, PlanBuildHasher};
use crate::world::{self, Violation};

type BMap = hb::HashMap<ArrKey, u64, PlanBuildHasher, CheckAlloc>;
type BSet = hb::HashSet<ArrKey, PlanBuildHasher, CheckAlloc>;
type BTable = hb::HashTable<(u32, u64), CheckAlloc>;

fn keeps(id: u32, pct: u64) -> bool {
    (id as u64).wrapping_mul(0x9E37_79B9_7F4A_7C15) >> 40 & 0xffff < pct * 656
}

fn count_check(what: &str, prop: &'static str, got: usize, want: usize) -> Result<(), Bad> {
    if got != want {
        bad!(prop, "big-count", "{what}: {got}, expected {want}");
    }
    Ok(())
}

pub fn run_inner(case: &Case, out: &mut Outcome) -> Result<(), Bad> {
    let plan = Plan {
        pos_rule: case.h("pos") as u32,
        pos_param: case.h("pos_p") as u32,
        tag_rule: case.h("tag") as u32,
        tag_param: case.h("tag_p") as u32,
        seed: case.h("seed"),
    };
    world::with(|w| w.default_plan = plan);
    let n = ((65_536usize) << (case.h("scale") % 2)) + (case.h("n_extra") % 5000) as usize;
    let pct = case.h("keep") % 101;
    let kept: usize = (0..n as u32).filter(|i| keeps(*i, pct)).count();
    out.labels |= crate::dump::L_X1;
    match case.h("coll") % 3 {
        0 => {
            let mut m: BMap = BMap::with_hasher_in(PlanBuildHasher::new(plan), CheckAlloc);
            m.extend((0..n as u32).map(|i| (ArrKey { id: i, tag: 0 }, i as u64)));
            count_check("HashMap len after extend", "C01", m.len(), n)?;
            count_check("HashMap iter().count()", "C09", m.iter().count(), n)?;
            count_check("HashMap keys().len()", "C09", m.keys().len(), n)?;
            let mut stepped = 0usize;
            let mut it = m.iter();
            while it.next().is_some() {
                stepped += 1;
            }
            count_check("HashMap iter() advanced by next()", "C09", stepped, n)?;
            let mut stepped = 0usize;
            for _ in m.values_mut() {
                stepped += 1;
            }
            count_check("HashMap values_mut() in a for loop", "C09", stepped, n)?;
            let c = m.clone();
            count_check("len of a cloned HashMap", "C11", c.len(), n)?;
            let mut stepped = 0usize;
            for _ in c {
                stepped += 1;
            }
            count_check("HashMap into_iter() in a for loop", "C09", stepped, n)?;
            let mut s = 0u64;
            m.values().for_each(|v| s = s.wrapping_add(*v));
            if s != (n as u64 * (n as u64 - 1)) / 2 {
                bad!("C09", "big-count", "HashMap values().for_each visited a different multiset (sum {s})");
            }
            for probe in [0u32, 1, 65_535, 65_536, n as u32 - 1].into_iter().filter(|p| (*p as usize) < n) {
                if m.get(&ArrKey { id: probe, tag: 1 }) != Some(&(probe as u64)) {
                    bad!("C01", "big-lookup", "key {probe} of {n} not found");
                }
            }
            let mut calls = 0usize;
            m.retain(|k, _| {
                calls += 1;
                keeps(k.id, pct)
            });
            count_check("HashMap::retain predicate calls", "C10", calls, n)?;
            count_check("HashMap len after retain", "C10", m.len(), kept)?;
            if m.keys().any(|k| !keeps(k.id, pct)) {
                bad!("C10", "big-retain", "HashMap::retain kept an element the predicate rejected");
            }
            let size = m.allocation_size();
            let mut calls = 0usize;
            let taken = m
                .extract_if(|k, _| {
                    calls += 1;
                    k.id % 2 == 0
                })
                .count();
            count_check("HashMap::extract_if predicate calls", "C10", calls, kept)?;
            count_check("HashMap len after extract_if", "C10", m.len(), kept - taken)?;
            let rest = m.len();
            count_check("HashMap drain().count()", "C10", m.drain().count(), rest)?;
            if !m.is_empty() || m.allocation_size() != size {
                bad!("C10", "drain-state", "HashMap after drain: len {} allocation {} -> {}", m.len(), size, m.allocation_size());
            }
            m.insert(ArrKey { id: 7, tag: 0 }, 7);
            m.clear();
            if m.allocation_size() != size {
                bad!("C08", "clear-changed-allocation", "HashMap::clear on {} buckets worth of allocation: {} -> {}", size, size, m.allocation_size());
            }
        }
        1 => {
            let mut s: BSet = (0..n as u32).map(|i| ArrKey { id: i, tag: 0 }).collect();
            count_check("HashSet len after collect", "C07", s.len(), n)?;
            count_check("HashSet iter().count()", "C09", s.iter().count(), n)?;
            let mut stepped = 0usize;
            for _ in &s {
                stepped += 1;
            }
            count_check("HashSet iter() in a for loop", "C09", stepped, n)?;
            let mut calls = 0usize;
            s.retain(|k| {
                calls += 1;
                keeps(k.id, pct)
            });
            count_check("HashSet::retain predicate calls", "C10", calls, n)?;
            count_check("HashSet len after retain", "C10", s.len(), kept)?;
            let other: BSet = (0..n as u32).filter(|i| i % 2 == 0).map(|i| ArrKey { id: i, tag: 0 }).collect();
            let want_i = (0..n as u32).filter(|i| i % 2 == 0 && keeps(*i, pct)).count();
            count_check("HashSet intersection().count()", "C07", s.intersection(&other).count(), want_i)?;
            count_check("HashSet difference().count()", "C07", s.difference(&other).count(), kept - want_i)?;
            let size = s.allocation_size();
            let rest = s.len();
            count_check("HashSet drain().count()", "C10", s.drain().count(), rest)?;
            s.insert(ArrKey { id: 1, tag: 0 });
            s.clear();
            if s.allocation_size() != size {
                bad!("C08", "clear-changed-allocation", "HashSet::clear: allocation {} -> {}", size, s.allocation_size());
            }
        }
        _ => {
            // a probe chain longer than 256 buckets: several hundred elements under one hash
            {
                let h0 = plan.hash(0x5eed);
                let m = 260 + (case.h("n_extra") % 300) as u32;
                let mut lc: BTable = BTable::new_in(CheckAlloc);
                for i in 0..m {
                    lc.insert_unique(h0, (i, i as u64), |_| h0);
                }
                let mut seen: Vec<u32> = lc.iter_hash(h0).map(|e| e.0).collect();
                let yielded = seen.len();
                seen.sort_unstable();
                seen.dedup();
                if yielded != m as usize || seen.len() != m as usize {
                    bad!("C06", "iter_hash-long-chain", "{m} elements under one hash: iter_hash yields {yielded} items, {} distinct", seen.len());
                }
                count_check("iter_hash().count() on a long chain", "C09", lc.iter_hash(h0).count(), m as usize)?;
                for i in [0, m / 2, m - 1] {
                    if lc.find(h0, |e| e.0 == i).is_none() {
                        bad!("C06", "big-lookup", "element {i} of a {m}-element chain under one hash not found");
                    }
                }
            }
            let mut t: BTable = BTable::new_in(CheckAlloc);
            for i in 0..n as u32 {
                t.insert_unique(plan.hash(i as u64), (i, i as u64), |e| plan.hash(e.0 as u64));
            }
            count_check("HashTable len", "C06", t.len(), n)?;
            count_check("HashTable iter().count()", "C09", t.iter().count(), n)?;
            let mut stepped = 0usize;
            for _ in t.iter_mut() {
                stepped += 1;
            }
            count_check("HashTable iter_mut() in a for loop", "C09", stepped, n)?;
            for probe in [0u32, 65_535, 65_536, n as u32 - 1].into_iter().filter(|p| (*p as usize) < n) {
                if t.find(plan.hash(probe as u64), |e| e.0 == probe).is_none() {
                    bad!("C06", "big-lookup", "element {probe} of {n} not found");
                }
            }
            let mut calls = 0usize;
            t.retain(|e| {
                calls += 1;
                keeps(e.0, pct)
            });
            count_check("HashTable::retain predicate calls", "C10", calls, n)?;
            count_check("HashTable len after retain", "C10", t.len(), kept)?;
            let mut calls = 0usize;
            let taken = t
                .extract_if(|e| {
                    calls += 1;
                    e.0 % 2 == 0
                })
                .count();
            count_check("HashTable::extract_if predicate calls", "C10", calls, kept)?;
            let size = t.allocation_size();
            let rest = t.len();
            if rest != kept - taken {
                bad!("C10", "big-count", "HashTable len after extract_if: {rest}, expected {}", kept - taken);
            }
            let mut d = 0usize;
            t.drain().for_each(|_| d += 1);
            count_check("HashTable drain().for_each", "C10", d, rest)?;
            t.insert_unique(plan.hash(3), (3, 3), |e| plan.hash(e.0 as u64));
            t.clear();
            if t.allocation_size() != size {
                bad!("C08", "clear-changed-allocation", "HashTable::clear: allocation {} -> {}", size, t.allocation_size());
            }
        }
    }
    if let Some(v) = world::take_violation() {
        return Err((v.property, Box::leak(v.kind.into_boxed_str()), v.detail));
    }
    let st = alloc::stats();
    if st.n_live != 0 {
        bad!("C03", "block-leaked", "{} blocks still allocated after the big collections were dropped", st.n_live);
    }
    Ok(())
}

pub fn run_case(case: &Case) -> Outcome {
    world::install_panic_hook();
    world::reset();
    // red zones and poisoning of multi-megabyte blocks cost more than the case itself
    let mut out = Outcome::default();
    out.steps = 1;
    world::clear_panic_messages();
    let r = std::panic::catch_unwind(std::panic::AssertUnwindSafe(|| run_inner(case, &mut out)));
    match r {
        Ok(Ok(())) => {}
        Ok(Err(b)) => out.violation = Some(Violation { property: b.0, kind: b.1.to_string(), step: 0, detail: b.2 }),
        Err(p) => {
            drop(p);
            let msg = world::last_panic_message().unwrap_or_default();
            out.violation = Some(Violation { property: "C02", kind: "unexpected-panic".into(), step: 0, detail: msg });
        }
    }
    out
}
