//! Deterministic hash plans: choose the position bits (low bits, `h1`) and the 7 tag bits
//! (bits 57..63, `Tag::full`) of every key's hash independently.

use crate::world::{self, Class};
use std::hash::{BuildHasher, Hasher};

pub fn splitmix64(mut x: u64) -> u64 {
    x = x.wrapping_add(0x9E37_79B9_7F4A_7C15);
    let mut z = x;
    z = (z ^ (z >> 30)).wrapping_mul(0xBF58_476D_1CE4_E5B9);
    z = (z ^ (z >> 27)).wrapping_mul(0x94D0_49BB_1331_11EB);
    z ^ (z >> 31)
}

pub const N_POS_RULES: u32 = 8;
pub const N_TAG_RULES: u32 = 4;
pub const POS_NAMES: [&str; N_POS_RULES as usize] = [
    "mixed", "const", "mod", "stride16", "stride8", "lastslots", "ident", "constmax",
];
pub const TAG_NAMES: [&str; N_TAG_RULES as usize] = ["mixed", "const", "mod2", "lowbitpair"];

#[derive(Clone, Copy, Debug, PartialEq, Eq)]
pub struct Plan {
    /// 0 Mixed, 1 Const(p), 2 Mod(p) (p in 1..=4), 3 Stride16 (id*16), 4 Stride8 (id*8),
    /// 5 LastSlots (all-ones minus id%15: the final slots of any table), 6 Ident, 7 Const(all ones)
    pub pos_rule: u32,
    pub pos_param: u32,
    /// 0 Mixed, 1 Const(t), 2 Mod2, 3 LowBitPair (tags 2t and 2t+1)
    pub tag_rule: u32,
    pub tag_param: u32,
    pub seed: u64,
}

impl Plan {
    pub fn mixed(seed: u64) -> Plan {
        Plan {
            pos_rule: 0,
            pos_param: 0,
            tag_rule: 0,
            tag_param: 0,
            seed,
        }
    }
    pub fn hash(&self, id: u64) -> u64 {
        let mix = splitmix64(id ^ self.seed.wrapping_mul(0xA24B_AED4_963E_E407));
        let pos: u64 = match self.pos_rule % N_POS_RULES {
            0 => mix,
            1 => self.pos_param as u64,
            2 => id % (1 + (self.pos_param as u64 % 4)),
            3 => id.wrapping_mul(16),
            4 => id.wrapping_mul(8),
            5 => u64::MAX - (id % 15),
            6 => id,
            _ => u64::MAX,
        };
        let tag: u64 = match self.tag_rule % N_TAG_RULES {
            0 => mix >> 57,
            1 => self.tag_param as u64 & 0x7f,
            2 => id & 1,
            _ => ((self.tag_param as u64 & 0x3f) << 1) | (splitmix64(id) & 1),
        };
        (tag << 57) | (pos & ((1u64 << 57) - 1))
    }
    pub fn name(&self) -> String {
        format!(
            "{}/{}",
            POS_NAMES[(self.pos_rule % N_POS_RULES) as usize],
            TAG_NAMES[(self.tag_rule % N_TAG_RULES) as usize]
        )
    }
    pub fn family(&self) -> usize {
        ((self.pos_rule % N_POS_RULES) * N_TAG_RULES + (self.tag_rule % N_TAG_RULES)) as usize
    }
}

#[derive(Clone, Debug)]
pub struct PlanBuildHasher {
    pub plan: Plan,
}

impl PlanBuildHasher {
    pub fn new(plan: Plan) -> Self {
        PlanBuildHasher { plan }
    }
}

impl Default for PlanBuildHasher {
    fn default() -> Self {
        PlanBuildHasher {
            plan: world::with(|w| w.default_plan),
        }
    }
}

impl BuildHasher for PlanBuildHasher {
    type Hasher = PlanHasher;
    fn build_hasher(&self) -> PlanHasher {
        PlanHasher {
            plan: self.plan,
            id: 0,
            gen: 0,
            n: 0,
        }
    }
}

pub struct PlanHasher {
    plan: Plan,
    id: u64,
    gen: u64,
    n: u32,
}

impl PlanHasher {
    fn feed(&mut self, v: u64) {
        match self.n {
            0 => self.id = v,
            1 => self.gen = v,
            _ => {}
        }
        self.n += 1;
    }
}

impl Hasher for PlanHasher {
    fn write(&mut self, bytes: &[u8]) {
        let mut v = 0u64;
        for (i, b) in bytes.iter().enumerate().take(8) {
            v |= (*b as u64) << (8 * i);
        }
        self.feed(v);
    }
    fn write_u32(&mut self, i: u32) {
        self.feed(i as u64);
    }
    fn write_u64(&mut self, i: u64) {
        self.feed(i);
    }
    fn finish(&self) -> u64 {
        world::callback(Class::Hash);
        let lawful = self.plan.hash(self.id);
        chaos_hash(lawful, || self.plan.hash(self.id ^ (self.gen << 20)))
    }
}

/// Answer of a possibly inconsistent hash function: `lawful` unless the thread's chaos mode says
/// otherwise (1/8: next value of the hash tape, 2: complemented on every second call, 3: `alt()`,
/// a hash that depends on a field `Eq` ignores). Not counted as a callback; shared by `PlanHasher`
/// and by the caller-side hasher closures of the HashTable interpreter.
pub fn chaos_hash(lawful: u64, alt: impl FnOnce() -> u64) -> u64 {
    let (mode, quiet) = world::with(|w| (w.chaos.mode, w.quiet > 0));
    if mode == 0 || quiet {
        return lawful;
    }
    match mode {
        1 | 8 => world::with(|w| {
            let c = &mut w.chaos;
            if c.hash_tape.is_empty() {
                lawful
            } else {
                let v = c.hash_tape[c.hash_pos % c.hash_tape.len()];
                c.hash_pos += 1;
                v
            }
        }),
        2 => {
            let p = world::with(|w| {
                w.chaos.hash_pos += 1;
                w.chaos.hash_pos & 1
            });
            if p == 1 {
                lawful
            } else {
                !lawful
            }
        }
        3 => alt(),
        _ => lawful,
    }
}

/// Install the answer tapes of a case (`chaos`, `tape_len`, `tape_seed`, `tape_small`) in the World.
pub fn setup_chaos(case: &crate::case::Case) {
    world::with(|w| {
        w.chaos.mode = case.h("chaos") as u32;
        let n = (case.h_or("tape_len", 16) as usize).clamp(1, 256);
        let ts = case.h("tape_seed");
        let small = case.h("tape_small") != 0;
        w.chaos.hash_tape = (0..n)
            .map(|i| {
                let r = splitmix64(ts.wrapping_add(i as u64));
                if small {
                    // a few values only: collisions in position and tag are common
                    [0u64, u64::MAX, 0x0100_0000_0000_0007, 0xFE00_0000_0000_0010][(r % 4) as usize]
                } else {
                    r
                }
            })
            .collect();
        w.chaos.eq_tape = (0..n).map(|i| splitmix64(ts.wrapping_mul(31).wrapping_add(i as u64)) & 1 == 1).collect();
    });
}

/// Hash of an id under a plan, without counting as a callback (oracle side).
pub fn oracle_hash(plan: &Plan, id: u32) -> u64 {
    plan.hash(id as u64)
}
