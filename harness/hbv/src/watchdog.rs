//! Progress counter observed by a watchdog thread (DESIGN 7.4).

use std::sync::atomic::{AtomicU64, Ordering};

pub static PROGRESS: AtomicU64 = AtomicU64::new(0);

#[inline]
pub fn tick() {
    PROGRESS.fetch_add(1, Ordering::Relaxed);
}
