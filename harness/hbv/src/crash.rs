//! Crash capture (DESIGN 7.3): every worker publishes the text of the case it is about to run in
//! a preallocated buffer; handlers for SIGSEGV/SIGBUS/SIGILL/SIGABRT/SIGFPE write all buffers to
//! a pre-opened file with async-signal-safe calls and re-raise with the default action.

use std::cell::UnsafeCell;
use std::sync::atomic::{AtomicI32, AtomicUsize, Ordering};

pub const MAX_WORKERS: usize = 64;
const BUF: usize = 256 * 1024;

struct Slot {
    len: AtomicUsize,
    data: UnsafeCell<[u8; BUF]>,
}
unsafe impl Sync for Slot {}

#[allow(clippy::declare_interior_mutable_const)]
const EMPTY_SLOT: Slot = Slot {
    len: AtomicUsize::new(0),
    data: UnsafeCell::new([0; BUF]),
};
static SLOTS: [Slot; MAX_WORKERS] = [EMPTY_SLOT; MAX_WORKERS];
static FD: AtomicI32 = AtomicI32::new(-1);

/// Publish the case the calling worker is about to run.
pub fn set_current(worker: usize, text: &str) {
    if worker >= MAX_WORKERS {
        return;
    }
    let s = &SLOTS[worker];
    s.len.store(0, Ordering::SeqCst);
    let n = text.len().min(BUF);
    unsafe {
        std::ptr::copy_nonoverlapping(text.as_ptr(), (*s.data.get()).as_mut_ptr(), n);
    }
    s.len.store(n, Ordering::SeqCst);
}

pub fn clear_current(worker: usize) {
    if worker < MAX_WORKERS {
        SLOTS[worker].len.store(0, Ordering::SeqCst);
    }
}

unsafe fn write_all(fd: i32, mut p: *const u8, mut n: usize) {
    while n > 0 {
        let w = libc::write(fd, p as *const libc::c_void, n);
        if w <= 0 {
            return;
        }
        p = p.add(w as usize);
        n -= w as usize;
    }
}

extern "C" fn handler(sig: i32) {
    unsafe {
        let fd = FD.load(Ordering::SeqCst);
        if fd >= 0 {
            for s in SLOTS.iter() {
                let n = s.len.load(Ordering::SeqCst);
                if n > 0 {
                    let sep = b"=== hbv-crash-case ===\n";
                    write_all(fd, sep.as_ptr(), sep.len());
                    write_all(fd, (*s.data.get()).as_ptr(), n);
                }
            }
            libc::fsync(fd);
        }
        libc::signal(sig, libc::SIG_DFL);
        libc::raise(sig);
    }
}

/// Install the handlers; crash dumps go to `path`.
pub fn install(path: &str) {
    let c = std::ffi::CString::new(path).unwrap();
    unsafe {
        let fd = libc::open(c.as_ptr(), libc::O_WRONLY | libc::O_CREAT | libc::O_TRUNC, 0o644);
        FD.store(fd, Ordering::SeqCst);
        // alternate stack so that stack overflows are caught too
        let sz = 1 << 16;
        let stack = libc::mmap(
            std::ptr::null_mut(),
            sz,
            libc::PROT_READ | libc::PROT_WRITE,
            libc::MAP_PRIVATE | libc::MAP_ANONYMOUS,
            -1,
            0,
        );
        if stack != libc::MAP_FAILED {
            let ss = libc::stack_t {
                ss_sp: stack,
                ss_flags: 0,
                ss_size: sz,
            };
            libc::sigaltstack(&ss, std::ptr::null_mut());
        }
        for sig in [libc::SIGSEGV, libc::SIGBUS, libc::SIGILL, libc::SIGABRT, libc::SIGFPE] {
            let mut sa: libc::sigaction = std::mem::zeroed();
            sa.sa_sigaction = handler as usize;
            sa.sa_flags = libc::SA_ONSTACK | libc::SA_NODEFER;
            libc::sigemptyset(&mut sa.sa_mask);
            libc::sigaction(sig, &sa, std::ptr::null_mut());
        }
    }
}

/// Text of every published case (used by the hang watchdog; not signal-safe).
pub fn snapshot_all() -> Vec<String> {
    let mut v = Vec::new();
    for s in SLOTS.iter() {
        let n = s.len.load(Ordering::SeqCst);
        if n > 0 {
            let bytes = unsafe { std::slice::from_raw_parts(s.data.get() as *const u8, n) };
            v.push(String::from_utf8_lossy(bytes).to_string());
        }
    }
    v
}
