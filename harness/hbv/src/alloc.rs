//! Checking allocator: a handle to a thread-local ledger. Guarded mode puts poisoned red zones
//! around every block, poisons fresh and freed memory and keeps freed blocks in a quarantine;
//! passthrough mode (ASan / Miri builds) allocates exact sizes so the sanitizer's own red zones
//! apply and only keeps the ledger.

use crate::world::violation;
use allocator_api2::alloc::{AllocError, Allocator, Layout};
use std::alloc::{GlobalAlloc, System};
use std::cell::RefCell;
use std::collections::{BTreeMap, VecDeque};
use std::ptr::NonNull;

const FRONT_POISON: u8 = 0xA5;
const FRESH_POISON: u8 = 0xCD;
/// Looks like a FULL control byte (high bit clear): a control-byte scan that runs past the end
/// of the block sees phantom elements instead of harmless EMPTY bytes.
const REAR_POISON: u8 = 0x2A;
const FREED_POISON: u8 = 0xDD;
const QUARANTINE_MAX_BYTES: usize = 4 << 20;
const QUARANTINE_MAX_BLOCKS: usize = 256;

#[derive(Clone, Debug)]
pub struct Block {
    pub user: usize,
    pub size: usize,
    pub align: usize,
    raw: usize,
    raw_size: usize,
    raw_align: usize,
    rz: usize,
    /// bytes handed out beyond the requested size (an allocator may return a longer block)
    slack: usize,
    pub id: u64,
}

#[derive(Default)]
pub struct Ledger {
    pub passthrough: bool,
    pub blocks: BTreeMap<usize, Block>,
    quarantine: VecDeque<Block>,
    quarantine_bytes: usize,
    pub n_alloc: u64,
    pub n_dealloc: u64,
    pub n_refused: u64,
    pub bytes_live: usize,
    pub peak_bytes: usize,
    /// refuse the n-th (1-based) request from now on
    pub refuse_nth: Option<u64>,
    /// refuse requests larger than this
    pub limit: Option<usize>,
    /// every block is this many bytes longer than requested, and says so in the returned slice
    pub slack: usize,
    pub refused: Vec<(usize, usize)>,
    /// every request (size, align) since the last `begin_op`
    pub requests: Vec<(usize, usize)>,
    pub next_id: u64,
    /// largest request ever seen in this case
    pub max_request: usize,
}

thread_local! {
    static LEDGER: RefCell<Ledger> = RefCell::new(Ledger::default());
    static PASSTHROUGH: std::cell::Cell<bool> = const { std::cell::Cell::new(false) };
}

pub fn set_passthrough(on: bool) {
    PASSTHROUGH.with(|p| p.set(on));
    with_ledger(|l| l.passthrough = on);
}

pub fn with_ledger<R>(f: impl FnOnce(&mut Ledger) -> R) -> R {
    LEDGER.with(|l| f(&mut l.borrow_mut()))
}

unsafe fn raw_free(b: &Block) {
    System.dealloc(
        b.raw as *mut u8,
        Layout::from_size_align_unchecked(b.raw_size, b.raw_align),
    );
}

fn verify_zones(b: &Block) -> Option<String> {
    if b.rz == 0 {
        return None;
    }
    unsafe {
        let front = std::slice::from_raw_parts(b.raw as *const u8, b.rz);
        if let Some(i) = front.iter().position(|x| *x != FRONT_POISON) {
            return Some(format!(
                "front red zone of block #{} (size {} align {}) overwritten {} bytes before the block start",
                b.id, b.size, b.align, b.rz - i
            ));
        }
        let rear = std::slice::from_raw_parts((b.user + b.size + b.slack) as *const u8, b.rz);
        if let Some(i) = rear.iter().position(|x| *x != REAR_POISON) {
            return Some(format!(
                "rear red zone of block #{} (size {} align {}) overwritten at offset {} past the end",
                b.id, b.size, b.align, i
            ));
        }
    }
    None
}

fn verify_freed(b: &Block) -> Option<String> {
    if b.rz == 0 {
        return None;
    }
    unsafe {
        let body = std::slice::from_raw_parts(b.user as *const u8, b.size);
        if let Some(i) = body.iter().position(|x| *x != FREED_POISON) {
            return Some(format!(
                "freed block #{} (size {}) written after free at offset {}",
                b.id, b.size, i
            ));
        }
    }
    verify_zones(b)
}

/// Free everything the ledger still holds and start afresh.
pub fn reset_ledger() {
    let pt = PASSTHROUGH.with(|p| p.get());
    with_ledger(|l| {
        for (_, b) in std::mem::take(&mut l.blocks) {
            unsafe { raw_free(&b) };
        }
        for b in std::mem::take(&mut l.quarantine) {
            unsafe { raw_free(&b) };
        }
        *l = Ledger::default();
        l.passthrough = pt;
        l.limit = Some(1 << 28);
    });
}

/// Verify all red zones of live blocks and the poison of quarantined blocks.
pub fn check_zones(full: bool) {
    let msgs: Vec<String> = with_ledger(|l| {
        let mut v = Vec::new();
        for b in l.blocks.values() {
            if let Some(m) = verify_zones(b) {
                v.push(m);
            }
        }
        if full {
            for b in l.quarantine.iter() {
                if let Some(m) = verify_freed(b) {
                    v.push(m);
                }
            }
        }
        v
    });
    for m in msgs {
        violation("C02", "out-of-bounds-write", m);
    }
}

/// Start of an operation: forget the per-operation request log.
pub fn begin_op() {
    with_ledger(|l| {
        l.requests.clear();
        l.refused.clear();
    });
}

#[derive(Clone, Copy, Debug, PartialEq, Eq)]
pub struct Stats {
    pub n_alloc: u64,
    pub n_dealloc: u64,
    pub n_refused: u64,
    pub bytes_live: usize,
    pub n_live: usize,
}

pub fn stats() -> Stats {
    with_ledger(|l| Stats {
        n_alloc: l.n_alloc,
        n_dealloc: l.n_dealloc,
        n_refused: l.n_refused,
        bytes_live: l.bytes_live,
        n_live: l.blocks.len(),
    })
}

/// The live block containing `addr`, if any: `(user_start, size, align)`.
pub fn block_containing(addr: usize) -> Option<(usize, usize, usize)> {
    with_ledger(|l| {
        l.blocks
            .range(..=addr)
            .next_back()
            .filter(|(_, b)| addr < b.user + b.size.max(1))
            .map(|(_, b)| (b.user, b.size, b.align))
    })
}

pub fn live_blocks() -> Vec<(usize, usize, usize)> {
    with_ledger(|l| l.blocks.values().map(|b| (b.user, b.size, b.align)).collect())
}

#[derive(Clone, Copy, Default, Debug)]
pub struct CheckAlloc;

unsafe impl Allocator for CheckAlloc {
    fn allocate(&self, layout: Layout) -> Result<NonNull<[u8]>, AllocError> {
        let size = layout.size();
        let align = layout.align();
        let mut bad: Option<String> = None;
        if !align.is_power_of_two() {
            bad = Some(format!("alignment {align} is not a power of two"));
        } else if size > (isize::MAX as usize) - (align - 1) {
            bad = Some(format!(
                "size {size} align {align}: size rounded up to the alignment exceeds isize::MAX"
            ));
        }
        let r = with_ledger(|l| {
            l.requests.push((size, align));
            l.max_request = l.max_request.max(size);
            if bad.is_some() {
                l.n_refused += 1;
                l.refused.push((size, align));
                return Err(());
            }
            if let Some(n) = l.refuse_nth {
                if n <= 1 {
                    l.refuse_nth = None;
                    l.n_refused += 1;
                    l.refused.push((size, align));
                    return Err(());
                }
                l.refuse_nth = Some(n - 1);
            }
            if let Some(lim) = l.limit {
                if size > lim {
                    l.n_refused += 1;
                    l.refused.push((size, align));
                    return Err(());
                }
            }
            let slack = l.slack;
            let (rz, raw_size, raw_align) = if l.passthrough {
                (0, (size + slack).max(1), align)
            } else {
                let rz = align.max(64);
                (rz, size + slack + 2 * rz, align.max(16))
            };
            let raw = unsafe { System.alloc(Layout::from_size_align(raw_size, raw_align).unwrap()) };
            if raw.is_null() {
                l.n_refused += 1;
                l.refused.push((size, align));
                return Err(());
            }
            let user = raw as usize + rz;
            if rz != 0 {
                unsafe {
                    std::ptr::write_bytes(raw, FRONT_POISON, rz);
                    std::ptr::write_bytes(user as *mut u8, FRESH_POISON, size + slack);
                    std::ptr::write_bytes((user + size + slack) as *mut u8, REAR_POISON, rz);
                }
            }
            let id = l.next_id;
            l.next_id += 1;
            l.blocks.insert(
                user,
                Block {
                    user,
                    size,
                    align,
                    raw: raw as usize,
                    raw_size,
                    raw_align,
                    rz,
                    slack,
                    id,
                },
            );
            l.n_alloc += 1;
            l.bytes_live += size;
            l.peak_bytes = l.peak_bytes.max(l.bytes_live);
            Ok((user, slack))
        });
        if let Some(m) = bad {
            violation("C12", "invalid-layout-requested", m);
        }
        match r {
            Ok((user, slack)) => {
                let p = unsafe { NonNull::new_unchecked(user as *mut u8) };
                Ok(NonNull::slice_from_raw_parts(p, size + slack))
            }
            Err(()) => Err(AllocError),
        }
    }

    unsafe fn deallocate(&self, ptr: NonNull<u8>, layout: Layout) {
        let addr = ptr.as_ptr() as usize;
        let mut msgs: Vec<(&'static str, &'static str, String)> = Vec::new();
        with_ledger(|l| {
            let b = match l.blocks.remove(&addr) {
                Some(b) => b,
                None => {
                    let in_q = l.quarantine.iter().any(|b| b.user == addr);
                    msgs.push((
                        "C03",
                        if in_q { "double-free" } else { "free-of-unknown-pointer" },
                        format!(
                            "deallocate({addr:#x}, size {} align {}) names no live block",
                            layout.size(),
                            layout.align()
                        ),
                    ));
                    return;
                }
            };
            l.n_dealloc += 1;
            l.bytes_live -= b.size;
            if layout.size() != b.size || layout.align() != b.align {
                msgs.push((
                    "C03",
                    "dealloc-layout-mismatch",
                    format!(
                        "block #{} allocated with size {} align {} freed with size {} align {}",
                        b.id,
                        b.size,
                        b.align,
                        layout.size(),
                        layout.align()
                    ),
                ));
            }
            if let Some(m) = verify_zones(&b) {
                msgs.push(("C02", "out-of-bounds-write", m));
            }
            if b.rz == 0 {
                raw_free(&b);
                return;
            }
            std::ptr::write_bytes(b.user as *mut u8, FREED_POISON, b.size);
            l.quarantine_bytes += b.raw_size;
            l.quarantine.push_back(b);
            while l.quarantine_bytes > QUARANTINE_MAX_BYTES
                || l.quarantine.len() > QUARANTINE_MAX_BLOCKS
            {
                let old = l.quarantine.pop_front().unwrap();
                l.quarantine_bytes -= old.raw_size;
                if let Some(m) = verify_freed(&old) {
                    msgs.push(("C02", "write-after-free", m));
                }
                raw_free(&old);
            }
        });
        for (p, k, m) in msgs {
            violation(p, k, m);
        }
    }
}

// ---------------------------------------------------------------------------------------------
// Counting global allocator: observes the `Global`-only constructors (C08) and the rayon runs
// (C19). Thread-local counters over `System`; atomics for cross-thread totals.

use std::sync::atomic::{AtomicI64, AtomicU64, Ordering};

pub struct CountingGlobal;

thread_local! {
    static G_ALLOCS: std::cell::Cell<u64> = const { std::cell::Cell::new(0) };
    static G_BYTES: std::cell::Cell<u64> = const { std::cell::Cell::new(0) };
}
pub static G_TOTAL_ALLOCS: AtomicU64 = AtomicU64::new(0);
pub static G_LIVE_BYTES: AtomicI64 = AtomicI64::new(0);

unsafe impl GlobalAlloc for CountingGlobal {
    unsafe fn alloc(&self, layout: Layout) -> *mut u8 {
        let _ = G_ALLOCS.try_with(|c| c.set(c.get() + 1));
        G_TOTAL_ALLOCS.fetch_add(1, Ordering::Relaxed);
        let p = System.alloc(layout);
        // bytes are counted for blocks that exist (a refused request of 2^60 bytes holds nothing)
        if !p.is_null() {
            let _ = G_BYTES.try_with(|c| c.set(c.get().wrapping_add(layout.size() as u64)));
            G_LIVE_BYTES.fetch_add(layout.size() as i64, Ordering::Relaxed);
        }
        p
    }
    unsafe fn dealloc(&self, ptr: *mut u8, layout: Layout) {
        G_LIVE_BYTES.fetch_sub(layout.size() as i64, Ordering::Relaxed);
        System.dealloc(ptr, layout)
    }
    unsafe fn realloc(&self, ptr: *mut u8, layout: Layout, new_size: usize) -> *mut u8 {
        let _ = G_ALLOCS.try_with(|c| c.set(c.get() + 1));
        G_TOTAL_ALLOCS.fetch_add(1, Ordering::Relaxed);
        let p = System.realloc(ptr, layout, new_size);
        if !p.is_null() {
            G_LIVE_BYTES.fetch_add((new_size as i64).wrapping_sub(layout.size() as i64), Ordering::Relaxed);
        }
        p
    }
}

/// Number of global allocation calls made by this thread so far.
pub fn global_allocs_this_thread() -> u64 {
    G_ALLOCS.with(|c| c.get())
}
