#![no_main]
use libfuzzer_sys::fuzz_target;

fuzz_target!(|data: &[u8]| {
    hbv::alloc::set_passthrough(true);
    if let Err((text, line)) = hbv::decode::run_decoded("lay", data) {
        if let Ok(dir) = std::env::var("HBV_FUZZ_OUT") {
            let _ = std::fs::write(format!("{dir}/violation-lay.case"), &text);
        }
        eprintln!("{line}");
        eprintln!("{text}");
        panic!("hbv oracle violation");
    }
});
