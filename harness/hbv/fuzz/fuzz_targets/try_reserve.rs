#![no_main]
use libfuzzer_sys::fuzz_target;

fuzz_target!(|data: &[u8]| {
    hbv::alloc::set_passthrough(true);
    if let Err((text, line)) = hbv::decode::run_decoded("try_reserve", data) {
        if let Ok(dir) = std::env::var("HBV_FUZZ_OUT") {
            let _ = std::fs::write(format!("{dir}/violation-try_reserve.case"), &text);
        }
        eprintln!("{line}");
        eprintln!("{text}");
        panic!("hbv oracle violation");
    }
});
