#!/usr/bin/env python3
"""C16: generate client programs (one obligation per single-line function) for the rustc oracle.

Three source files are produced in src/:
  accept.rs   programs that MUST be accepted (all-Send+Sync twins, borrow twins, variance controls)
  reject.rs   programs that MUST be rejected (a witness assignment violates the access-requirement
              table; a covariant coercion through a writing type; a borrow used after the
              collection was mutated / dropped / moved; two mutable results at once)
  maybe.rs    programs the table allows but the crate may refuse (it is allowed to be stricter)
and programs.json maps every function name to its description, file and line.
"""
import itertools
import json
import os
import sys

HERE = os.path.dirname(os.path.abspath(__file__))

# witness classes: index 0 Send+Sync, 1 Send only, 2 Sync only, 3 neither
W = ["SS", "So", "Yo", "NN"]
AW = ["ASS", "ASo", "AYo", "ANN"]


def violates(req, cls):
    if req == "S":
        return cls in (2, 3)
    if req == "Y":
        return cls in (1, 3)
    if req == "S|Y":
        return cls == 3
    return False


def row(send, sync, inv=()):
    return dict(send=send, sync=sync, inv=list(inv))


KV_Y = {"K": "Y", "V": "Y"}
ENTRY_SEND = {"K": "S", "V": "S", "S": "S|Y", "A": "S|Y"}

# (path, lifetimes, params, row) ; the allocator parameter is always called A
TYPES = [
    ("hashbrown::HashMap", [], ["K", "V", "S", "A"], row({"K": "S", "V": "S", "S": "S", "A": "S"}, {"K": "Y", "V": "Y", "S": "Y", "A": "Y"})),
    ("hashbrown::HashSet", [], ["T", "S", "A"], row({"T": "S", "S": "S", "A": "S"}, {"T": "Y", "S": "Y", "A": "Y"})),
    ("hashbrown::HashTable", [], ["T", "A"], row({"T": "S", "A": "S"}, {"T": "Y", "A": "Y"})),
    # shared iterators
    ("hashbrown::hash_map::Iter", ["'a"], ["K", "V"], row(KV_Y, KV_Y)),
    ("hashbrown::hash_map::Keys", ["'a"], ["K", "V"], row({"K": "Y"}, {"K": "Y"})),
    ("hashbrown::hash_map::Values", ["'a"], ["K", "V"], row({"V": "Y"}, {"V": "Y"})),
    ("hashbrown::hash_map::rayon::ParIter", ["'a"], ["K", "V"], row(KV_Y, KV_Y)),
    ("hashbrown::hash_map::rayon::ParKeys", ["'a"], ["K", "V"], row({"K": "Y"}, {"K": "Y"})),
    ("hashbrown::hash_map::rayon::ParValues", ["'a"], ["K", "V"], row({"V": "Y"}, {"V": "Y"})),
    ("hashbrown::hash_set::Iter", ["'a"], ["T"], row({"T": "Y"}, {"T": "Y"})),
    ("hashbrown::hash_table::Iter", ["'a"], ["T"], row({"T": "Y"}, {"T": "Y"})),
    ("hashbrown::hash_table::IterHash", ["'a"], ["T"], row({"T": "Y"}, {"T": "Y"})),
    ("hashbrown::hash_set::rayon::ParIter", ["'a"], ["T"], row({"T": "Y"}, {"T": "Y"})),
    ("hashbrown::hash_table::rayon::ParIter", ["'a"], ["T"], row({"T": "Y"}, {"T": "Y"})),
    # set operations (hash through &S)
    ("hashbrown::hash_set::Intersection", ["'a"], ["T", "S", "A"], row({"T": "Y", "S": "Y"}, {"T": "Y", "S": "Y"})),
    ("hashbrown::hash_set::Difference", ["'a"], ["T", "S", "A"], row({"T": "Y", "S": "Y"}, {"T": "Y", "S": "Y"})),
    ("hashbrown::hash_set::SymmetricDifference", ["'a"], ["T", "S", "A"], row({"T": "Y", "S": "Y"}, {"T": "Y", "S": "Y"})),
    ("hashbrown::hash_set::Union", ["'a"], ["T", "S", "A"], row({"T": "Y", "S": "Y"}, {"T": "Y", "S": "Y"})),
    ("hashbrown::hash_set::rayon::ParDifference", ["'a"], ["T", "S", "A"], row({"T": "Y", "S": "Y"}, {"T": "Y", "S": "Y"})),
    ("hashbrown::hash_set::rayon::ParSymmetricDifference", ["'a"], ["T", "S", "A"], row({"T": "Y", "S": "Y"}, {"T": "Y", "S": "Y"})),
    ("hashbrown::hash_set::rayon::ParIntersection", ["'a"], ["T", "S", "A"], row({"T": "Y", "S": "Y"}, {"T": "Y", "S": "Y"})),
    ("hashbrown::hash_set::rayon::ParUnion", ["'a"], ["T", "S", "A"], row({"T": "Y", "S": "Y"}, {"T": "Y", "S": "Y"})),
    ("hashbrown::hash_map::RawEntryBuilder", ["'a"], ["K", "V", "S", "A"], row({"K": "Y", "V": "Y", "S": "Y"}, {"K": "Y", "V": "Y", "S": "Y"})),
    # mutable iterators
    ("hashbrown::hash_map::IterMut", ["'a"], ["K", "V"], row({"K": "S|Y", "V": "S"}, KV_Y, ["V"])),
    ("hashbrown::hash_map::rayon::ParIterMut", ["'a"], ["K", "V"], row({"K": "S|Y", "V": "S"}, KV_Y, ["V"])),
    ("hashbrown::hash_map::ValuesMut", ["'a"], ["K", "V"], row({"V": "S"}, {"V": "Y"}, ["V"])),
    ("hashbrown::hash_map::rayon::ParValuesMut", ["'a"], ["K", "V"], row({"V": "S"}, {"V": "Y"}, ["V"])),
    ("hashbrown::hash_table::IterMut", ["'a"], ["T"], row({"T": "S"}, {"T": "Y"}, ["T"])),
    ("hashbrown::hash_table::IterHashMut", ["'a"], ["T"], row({"T": "S"}, {"T": "Y"}, ["T"])),
    ("hashbrown::hash_table::rayon::ParIterMut", ["'a"], ["T"], row({"T": "S"}, {"T": "Y"}, ["T"])),
    # owning iterators
    ("hashbrown::hash_map::IntoIter", [], ["K", "V", "A"], row({"K": "S", "V": "S", "A": "S"}, KV_Y)),
    ("hashbrown::hash_map::IntoKeys", [], ["K", "V", "A"], row({"K": "S", "V": "S", "A": "S"}, {"K": "Y"})),
    ("hashbrown::hash_map::IntoValues", [], ["K", "V", "A"], row({"K": "S", "V": "S", "A": "S"}, {"V": "Y"})),
    ("hashbrown::hash_map::rayon::IntoParIter", [], ["K", "V", "A"], row({"K": "S", "V": "S", "A": "S"}, {})),
    ("hashbrown::hash_set::IntoIter", [], ["T", "A"], row({"T": "S", "A": "S"}, {"T": "Y"})),
    ("hashbrown::hash_table::IntoIter", [], ["T", "A"], row({"T": "S", "A": "S"}, {"T": "Y"})),
    ("hashbrown::hash_set::rayon::IntoParIter", [], ["T", "A"], row({"T": "S", "A": "S"}, {})),
    ("hashbrown::hash_table::rayon::IntoParIter", [], ["T", "A"], row({"T": "S", "A": "S"}, {})),
    # drains
    ("hashbrown::hash_map::Drain", ["'a"], ["K", "V", "A"], row({"K": "S", "V": "S"}, KV_Y)),
    ("hashbrown::hash_set::Drain", ["'a"], ["T", "A"], row({"T": "S"}, {"T": "Y"})),
    ("hashbrown::hash_table::Drain", ["'a"], ["T", "A"], row({"T": "S"}, {"T": "Y"})),
    ("hashbrown::hash_map::rayon::ParDrain", ["'a"], ["K", "V", "A"], row({"K": "S", "V": "S"}, {})),
    ("hashbrown::hash_set::rayon::ParDrain", ["'a"], ["T", "A"], row({"T": "S"}, {})),
    ("hashbrown::hash_table::rayon::ParDrain", ["'a"], ["T", "A"], row({"T": "S"}, {})),
    # extract_if
    ("hashbrown::hash_map::ExtractIf", ["'a"], ["K", "V", "F", "A"], row({"K": "S", "V": "S", "F": "S"}, {}, ["V"])),
    ("hashbrown::hash_set::ExtractIf", ["'a"], ["T", "F", "A"], row({"T": "S", "F": "S"}, {})),
    ("hashbrown::hash_table::ExtractIf", ["'a"], ["T", "F", "A"], row({"T": "S", "F": "S"}, {}, ["T"])),
    # map entries
    ("hashbrown::hash_map::Entry", ["'a"], ["K", "V", "S", "A"], row(ENTRY_SEND, KV_Y, ["V"])),
    ("hashbrown::hash_map::OccupiedEntry", ["'a"], ["K", "V", "S", "A"], row(ENTRY_SEND, KV_Y, ["V"])),
    ("hashbrown::hash_map::VacantEntry", ["'a"], ["K", "V", "S", "A"], row(ENTRY_SEND, {"K": "Y"}, ["V"])),
    ("hashbrown::hash_map::OccupiedError", ["'a"], ["K", "V", "S", "A"], row(ENTRY_SEND, KV_Y, ["V"])),
    ("hashbrown::hash_map::EntryRef", ["'a", "'b"], ["K", "Q", "V", "S", "A"], row(dict(ENTRY_SEND, Q="Y"), {"K": "Y", "V": "Y", "Q": "Y"}, ["V"])),
    ("hashbrown::hash_map::VacantEntryRef", ["'a", "'b"], ["K", "Q", "V", "S", "A"], row(dict(ENTRY_SEND, Q="Y"), {"Q": "Y"}, ["V"])),
    # set entries
    ("hashbrown::hash_set::Entry", ["'a"], ["T", "S", "A"], row({"T": "S", "S": "S|Y", "A": "S|Y"}, {"T": "Y"})),
    ("hashbrown::hash_set::OccupiedEntry", ["'a"], ["T", "S", "A"], row({"T": "S", "S": "S|Y", "A": "S|Y"}, {"T": "Y"})),
    ("hashbrown::hash_set::VacantEntry", ["'a"], ["T", "S", "A"], row({"T": "S", "S": "S|Y", "A": "S|Y"}, {"T": "Y"})),
    # raw entries
    ("hashbrown::hash_map::RawEntryBuilderMut", ["'a"], ["K", "V", "S", "A"], row(ENTRY_SEND, {}, ["K", "V"])),
    ("hashbrown::hash_map::RawEntryMut", ["'a"], ["K", "V", "S", "A"], row(ENTRY_SEND, KV_Y, ["K", "V"])),
    ("hashbrown::hash_map::RawOccupiedEntryMut", ["'a"], ["K", "V", "S", "A"], row(ENTRY_SEND, KV_Y, ["K", "V"])),
    ("hashbrown::hash_map::RawVacantEntryMut", ["'a"], ["K", "V", "S", "A"], row(ENTRY_SEND, {}, ["K", "V"])),
    # rustc entries
    ("hashbrown::hash_map::RustcEntry", ["'a"], ["K", "V", "A"], row({"K": "S", "V": "S"}, KV_Y, ["V"])),
    ("hashbrown::hash_map::RustcOccupiedEntry", ["'a"], ["K", "V", "A"], row({"K": "S", "V": "S"}, KV_Y, ["V"])),
    ("hashbrown::hash_map::RustcVacantEntry", ["'a"], ["K", "V", "A"], row({"K": "S", "V": "S"}, {"K": "Y"}, ["V"])),
    # table entries
    ("hashbrown::hash_table::Entry", ["'a"], ["T", "A"], row({"T": "S", "A": "S"}, {"T": "Y"}, ["T"])),
    ("hashbrown::hash_table::OccupiedEntry", ["'a"], ["T", "A"], row({"T": "S", "A": "S"}, {"T": "Y"}, ["T"])),
    ("hashbrown::hash_table::VacantEntry", ["'a"], ["T", "A"], row({"T": "S", "A": "S"}, {}, ["T"])),
    ("hashbrown::hash_table::AbsentEntry", ["'a"], ["T", "A"], row({"T": "S", "A": "S"}, {}, ["T"])),
]

PRELUDE = r'''// generated by gen.py - do not edit
#![allow(dead_code, unused_variables, unused_mut, unused_imports, clippy::all)]
use std::cell::Cell;
use std::marker::PhantomData;
use std::sync::MutexGuard;
use allocator_api2::alloc::{AllocError, Allocator, Layout};
use std::ptr::NonNull;
pub struct SS;
pub struct So(Cell<u8>);
pub struct Yo(PhantomData<MutexGuard<'static, u8>>);
pub struct NN(PhantomData<*const u8>);
macro_rules! alloc_witness { ($n:ident, $m:ty) => {
    pub struct $n(PhantomData<$m>);
    unsafe impl Allocator for $n {
        fn allocate(&self, _l: Layout) -> Result<NonNull<[u8]>, AllocError> { Err(AllocError) }
        unsafe fn deallocate(&self, _p: NonNull<u8>, _l: Layout) {}
    }
}; }
alloc_witness!(ASS, u8);
alloc_witness!(ASo, Cell<u8>);
alloc_witness!(AYo, MutexGuard<'static, u8>);
alloc_witness!(ANN, *const u8);
fn assert_send<T: Send>() {}
fn assert_sync<T: Sync>() {}
fn use_it<T>(_x: &T) {}
fn mk_map() -> hashbrown::HashMap<u32, String> { hashbrown::HashMap::new() }
fn mk_set() -> hashbrown::HashSet<u32> { hashbrown::HashSet::new() }
fn mk_table() -> hashbrown::HashTable<u32> { hashbrown::HashTable::new() }
fn h(x: &u32) -> u64 { *x as u64 }
'''


def type_expr(path, lts, params, assign):
    args = list(lts)
    for p in params:
        c = assign[p]
        args.append(AW[c] if p == "A" else W[c])
    return f"{path}<{', '.join(args)}>"


def gen_auto():
    progs = []
    for (path, lts, params, r) in TYPES:
        for marker in ("send", "sync"):
            reqs = r[marker]
            # all assignments over parameters that carry a requirement; the others get every class too
            # but only in a reduced product (each other parameter varied alone) to keep the batch small
            req_params = [p for p in params if p in reqs]
            free = [p for p in params if p not in reqs]
            if os.environ.get("HBV_TIER") == "thorough" and reqs:
                # full product over every parameter
                req_params, free = list(params), []
            combos = []
            for vals in itertools.product(range(4), repeat=len(req_params)):
                a = {p: 0 for p in params}
                a.update(dict(zip(req_params, vals)))
                combos.append(a)
            for p in free:
                for c in (1, 2, 3):
                    a = {q: 0 for q in params}
                    a[p] = c
                    combos.append(a)
            for a in combos:
                bad = [p for p in req_params if p in reqs and violates(reqs[p], a[p])]
                allss = all(v == 0 for v in a.values())
                cat = "reject" if bad else ("accept" if allss else "maybe")
                lt = f"<{', '.join(lts)}>" if lts else ""
                body = f"assert_{marker}::<{type_expr(path, lts, params, a)}>();"
                desc = f"{path}: {marker.capitalize()} with " + ", ".join(f"{p}={W[a[p]]}" for p in params) + (f" (violates {','.join(p + ':' + reqs[p] for p in bad)})" if bad else "")
                progs.append(dict(cat=cat, sig=lt, body=body, desc=desc, kind="auto", type=path, marker=marker))
    return progs


def gen_variance():
    progs = []
    for (path, lts, params, r) in TYPES:
        for p in params:
            if p in ("A", "F", "S"):
                continue
            def ty(arg):
                args = list(lts)
                for q in params:
                    if q == "A":
                        continue  # default allocator
                    if q == p:
                        args.append(arg)
                    elif q == "S":
                        args.append("SS")
                    elif q == "F":
                        args.append("fn(&u8) -> bool")
                    else:
                        args.append("u8")
                # types with an allocator default: drop trailing A
                return f"{path}<{', '.join(args)}>"
            lt = "<" + ", ".join(lts + ["'short", "'long: 'short"]) + ">"
            body_ret = f"(x: {ty(chr(38) + chr(39) + 'long str')}) -> {ty(chr(38) + chr(39) + 'short str')} {{ x }}"
            same = chr(38) + chr(39) + 'long str'
            progs.append(dict(cat="accept", sig=lt, fnbody=f"(x: {ty(same)}) -> {ty(same)} {{ x }}",
                              desc=f"{path}: identity control for the coercion in {p}", kind="variance-twin", type=path))
            must_reject = p in r["inv"]
            progs.append(dict(cat="reject" if must_reject else "maybe", sig=lt, fnbody=body_ret,
                              desc=f"{path}: covariant coercion in {p} ({'must be invariant' if must_reject else 'may be covariant'})",
                              kind="variance", type=path))
    return progs


# borrow programs: (name, make, expression producing r from `c`, needs mut)
MAP_B = [
    ("get", "c.get(&1)"), ("get_mut", "c.get_mut(&1)"), ("get_key_value", "c.get_key_value(&1)"),
    ("get_key_value_mut", "c.get_key_value_mut(&1)"), ("get_many_mut", "c.get_many_mut([&1, &2])"),
    ("get_many_key_value_mut", "c.get_many_key_value_mut([&1, &2])"), ("iter", "c.iter()"), ("iter_mut", "c.iter_mut()"),
    ("keys", "c.keys()"), ("values", "c.values()"), ("values_mut", "c.values_mut()"), ("drain", "c.drain()"),
    ("extract_if", "c.extract_if(|_, _| true)"), ("entry", "c.entry(1)"), ("entry_ref", "c.entry_ref(&1)"),
    ("raw_entry", "c.raw_entry().from_key(&1)"), ("raw_entry_builder", "c.raw_entry()"), ("raw_entry_mut", "c.raw_entry_mut().from_key(&1)"),
    ("rustc_entry", "c.rustc_entry(1)"), ("try_insert", "c.try_insert(1, String::new())"),
    ("entry_or_insert", "c.entry(1).or_insert(String::new())"), ("entry_or_default", "c.entry(1).or_default()"),
    ("entry_or_insert_with", "c.entry(1).or_insert_with(String::new)"),
    ("occupied_into_mut", "match c.entry(1) { hashbrown::hash_map::Entry::Occupied(o) => Some(o.into_mut()), _ => None }"),
    ("vacant_insert", "match c.entry(1) { hashbrown::hash_map::Entry::Vacant(v) => Some(v.insert(String::new())), _ => None }"),
    ("iter_item", "c.iter().next()"), ("iter_mut_item", "c.iter_mut().next()"), ("values_mut_item", "c.values_mut().next()"),
    ("index", "&c[&1]"), ("raw_occupied_into_key_value", "match c.raw_entry_mut().from_key(&1) { hashbrown::hash_map::RawEntryMut::Occupied(o) => Some(o.into_key_value()), _ => None }"),
    ("rustc_or_insert", "c.rustc_entry(1).or_insert(String::new())"),
    ("par_iter", "{ use rayon::iter::IntoParallelRefIterator; c.par_iter() }"),
    ("par_iter_mut", "{ use rayon::iter::IntoParallelRefMutIterator; c.par_iter_mut() }"),
    ("par_keys", "c.par_keys()"), ("par_values", "c.par_values()"), ("par_values_mut", "c.par_values_mut()"), ("par_drain", "c.par_drain()"),
    ("insert_unique_unchecked", "unsafe { c.insert_unique_unchecked(77, String::new()) }"),
    ("hasher", "c.hasher()"), ("allocator", "c.allocator()"),
]
SET_B = [
    ("get", "c.get(&1)"), ("get_or_insert", "c.get_or_insert(1)"), ("get_or_insert_with", "c.get_or_insert_with(&1, |x| *x)"),
    ("iter", "c.iter()"), ("drain", "c.drain()"), ("extract_if", "c.extract_if(|_| true)"), ("entry", "c.entry(1)"),
    ("iter_item", "c.iter().next()"), ("par_iter", "{ use rayon::iter::IntoParallelRefIterator; c.par_iter() }"), ("par_drain", "c.par_drain()"),
    ("insert_unique_unchecked", "unsafe { c.insert_unique_unchecked(77) }"), ("hasher", "c.hasher()"), ("allocator", "c.allocator()"),
]
SET2_B = [("union", "c.union(&d)"), ("intersection", "c.intersection(&d)"), ("difference", "c.difference(&d)"),
          ("symmetric_difference", "c.symmetric_difference(&d)"), ("par_union", "c.par_union(&d)"), ("par_difference", "c.par_difference(&d)")]
TABLE_B = [
    ("find", "c.find(1, |x| *x == 1)"), ("find_mut", "c.find_mut(1, |x| *x == 1)"), ("find_entry", "c.find_entry(1, |x| *x == 1)"),
    ("entry", "c.entry(1, |x| *x == 1, h)"), ("insert_unique", "c.insert_unique(1, 1, h)"), ("iter", "c.iter()"), ("iter_mut", "c.iter_mut()"),
    ("iter_hash", "c.iter_hash(1)"), ("iter_hash_mut", "c.iter_hash_mut(1)"), ("drain", "c.drain()"), ("extract_if", "c.extract_if(|_| true)"),
    ("get_many_mut", "c.get_many_mut([1, 2], |i, x| *x == i as u32)"),
    ("occupied_into_mut", "c.find_entry(1, |x| *x == 1).ok().map(|o| o.into_mut())"),
    ("occupied_into_table", "c.find_entry(1, |x| *x == 1).ok().map(|o| o.into_table())"),
    ("vacant_insert", "match c.entry(1, |x| *x == 1, h) { hashbrown::hash_table::Entry::Vacant(v) => Some(v.insert(1)), _ => None }"),
    ("iter_item", "c.iter().next()"), ("iter_mut_item", "c.iter_mut().next()"),
    ("par_iter", "{ use rayon::iter::IntoParallelRefIterator; c.par_iter() }"), ("par_drain", "c.par_drain()"),
    ("allocator", "c.allocator()"),
]
KILLS = {"mutate": "c.clear();", "drop": "drop(c);", "move": "let moved = c;"}


def gen_borrow():
    progs = []
    for (coll, mk, table) in (("HashMap", "mk_map()", MAP_B), ("HashSet", "mk_set()", SET_B), ("HashTable", "mk_table()", TABLE_B)):
        for (name, expr) in table:
            for (kname, kill) in KILLS.items():
                pre = f"let mut c = {mk}; let r = {expr};"
                progs.append(dict(cat="reject", sig="", body=f"{pre} {kill} use_it(&r);", kind="borrow",
                                  desc=f"{coll}::{name}: result used after the collection is {kname}d"))
                progs.append(dict(cat="accept", sig="", body=f"{pre} use_it(&r); drop(r); {kill}", kind="borrow-twin",
                                  desc=f"{coll}::{name}: control twin ({kname} after the last use)"))
    for (name, expr) in SET2_B:
        for (kname, kill_c, kill_d) in (("mutate", "c.clear();", "d.clear();"), ("drop", "drop(c);", "drop(d);")):
            for which, kill in (("left", kill_c), ("right", kill_d)):
                pre = f"let mut c = mk_set(); let mut d = mk_set(); let r = {expr};"
                progs.append(dict(cat="reject", sig="", body=f"{pre} {kill} use_it(&r);", kind="borrow",
                                  desc=f"HashSet::{name}: result used after the {which} operand is {kname}d"))
                progs.append(dict(cat="accept", sig="", body=f"{pre} use_it(&r); drop(r); {kill}", kind="borrow-twin",
                                  desc=f"HashSet::{name}: control twin ({which} operand {kname}d after the last use)"))
    # two mutable results at once
    two = [("HashMap", "mk_map()", "c.get_mut(&1)", "c.get_mut(&2)"), ("HashMap", "mk_map()", "c.iter_mut()", "c.values_mut()"),
           ("HashMap", "mk_map()", "c.entry(1)", "c.entry(2)"), ("HashMap", "mk_map()", "c.drain()", "c.iter()"),
           ("HashMap", "mk_map()", "c.get_mut(&1)", "c.get(&2)"), ("HashMap", "mk_map()", "c.raw_entry_mut().from_key(&1)", "c.get(&1)"),
           ("HashSet", "mk_set()", "c.drain()", "c.iter()"), ("HashSet", "mk_set()", "c.entry(1)", "c.get(&1)"),
           ("HashTable", "mk_table()", "c.find_mut(1, |x| *x == 1)", "c.find_mut(2, |x| *x == 2)"),
           ("HashTable", "mk_table()", "c.iter_mut()", "c.iter()"), ("HashTable", "mk_table()", "c.find_entry(1, |x| *x == 1)", "c.find(1, |x| *x == 1)"),
           ("HashTable", "mk_table()", "c.iter_hash_mut(1)", "c.iter_hash(1)")]
    for (coll, mk, e1, e2) in two:
        progs.append(dict(cat="reject", sig="", body=f"let mut c = {mk}; let a = {e1}; let b = {e2}; use_it(&a); use_it(&b);", kind="borrow",
                          desc=f"{coll}: `{e1}` and `{e2}` alive at once"))
        progs.append(dict(cat="accept", sig="", body=f"let mut c = {mk}; let a = {e1}; use_it(&a); drop(a); let b = {e2}; use_it(&b);", kind="borrow-twin",
                          desc=f"{coll}: control twin, `{e1}` then `{e2}` sequentially"))
    return progs


# references obtained FROM entries must not outlive the entry's own borrow / consumption
OCC_MAP = "let mut c = mk_map(); c.insert(1, String::new()); let mut e = match c.entry(1) { hashbrown::hash_map::Entry::Occupied(o) => o, _ => return };"
OCC_REF = "let mut c = mk_map(); c.insert(1, String::new()); let mut e = match c.entry_ref(&1) { hashbrown::hash_map::EntryRef::Occupied(o) => o, _ => return };"
OCC_RAW = "let mut c = mk_map(); c.insert(1, String::new()); let mut e = match c.raw_entry_mut().from_key(&1) { hashbrown::hash_map::RawEntryMut::Occupied(o) => o, _ => return };"
OCC_RUSTC = "let mut c = mk_map(); c.insert(1, String::new()); let mut e = match c.rustc_entry(1) { hashbrown::hash_map::RustcEntry::Occupied(o) => o, _ => return };"
OCC_SET = "let mut c = mk_set(); c.insert(1); let mut e = match c.entry(1) { hashbrown::hash_set::Entry::Occupied(o) => o, _ => return };"
OCC_TABLE = "let mut c = mk_table(); c.insert_unique(1, 1, h); let mut e = match c.find_entry(1, |x| *x == 1) { Ok(o) => o, _ => return };"
VAC_MAP = "let mut c = mk_map(); let mut e = match c.entry(1) { hashbrown::hash_map::Entry::Vacant(v) => v, _ => return };"
VAC_RUSTC = "let mut c = mk_map(); let mut e = match c.rustc_entry(1) { hashbrown::hash_map::RustcEntry::Vacant(v) => v, _ => return };"
VAC_SET = "let mut c = mk_set(); let mut e = match c.entry(1) { hashbrown::hash_set::Entry::Vacant(v) => v, _ => return };"
ENUM_MAP = "let mut c = mk_map(); c.insert(1, String::new()); let mut e = c.entry(1);"
ERR_MAP = "let mut c = mk_map(); c.insert(1, String::new()); let mut e = match c.try_insert(1, String::new()) { Err(x) => x, _ => return };"
ENTRY_B = [
    ("hash_map::OccupiedEntry::get_mut then remove", OCC_MAP, "e.get_mut()", "let gone = e.remove();"),
    ("hash_map::OccupiedEntry::get then insert", OCC_MAP, "e.get()", "let old = e.insert(String::new());"),
    ("hash_map::OccupiedEntry::key then remove_entry", OCC_MAP, "e.key()", "let gone = e.remove_entry();"),
    ("hash_map::OccupiedEntry::get_mut then into_mut", OCC_MAP, "e.get_mut()", "let m = e.into_mut();"),
    ("hash_map::OccupiedEntry (entry_ref)::get_mut then remove", OCC_REF, "e.get_mut()", "let gone = e.remove();"),
    ("hash_map::RawOccupiedEntryMut::get_mut then remove", OCC_RAW, "e.get_mut()", "let gone = e.remove();"),
    ("hash_map::RawOccupiedEntryMut::key_mut then insert_key", OCC_RAW, "e.key_mut()", "let old = e.insert_key(1);"),
    ("hash_map::RawOccupiedEntryMut::get_key_value_mut then remove_entry", OCC_RAW, "e.get_key_value_mut()", "let gone = e.remove_entry();"),
    ("hash_map::RawOccupiedEntryMut::get then insert", OCC_RAW, "e.get()", "let old = e.insert(String::new());"),
    ("hash_map::RustcOccupiedEntry::get_mut then remove", OCC_RUSTC, "e.get_mut()", "let gone = e.remove();"),
    ("hash_map::RustcOccupiedEntry::get then insert", OCC_RUSTC, "e.get()", "let old = e.insert(String::new());"),
    ("hash_set::OccupiedEntry::get then remove", OCC_SET, "e.get()", "let gone = e.remove();"),
    ("hash_table::OccupiedEntry::get_mut then remove", OCC_TABLE, "e.get_mut()", "let gone = e.remove();"),
    ("hash_table::OccupiedEntry::get then into_mut", OCC_TABLE, "e.get()", "let m = e.into_mut();"),
    ("hash_map::VacantEntry::key then insert", VAC_MAP, "e.key()", "let v = e.insert(String::new());"),
    ("hash_map::RustcVacantEntry::key then insert", VAC_RUSTC, "e.key()", "let v = e.insert(String::new());"),
    ("hash_set::VacantEntry::get then insert", VAC_SET, "e.get()", "let o = e.insert();"),
    ("hash_map::Entry::key then or_default", ENUM_MAP, "e.key()", "let v = e.or_default();"),
    ("hash_map::OccupiedError.entry.get_mut then entry.remove", ERR_MAP, "e.entry.get_mut()", "let gone = e.entry.remove();"),
]
ENTRY_TWO = [
    ("hash_map::OccupiedEntry::get_mut twice", OCC_MAP, "e.get_mut()", "e.get_mut()"),
    ("hash_map::RawOccupiedEntryMut::get_mut and key_mut", OCC_RAW, "e.get_mut()", "e.key_mut()"),
    ("hash_map::RustcOccupiedEntry::get_mut twice", OCC_RUSTC, "e.get_mut()", "e.get_mut()"),
    ("hash_table::OccupiedEntry::get_mut twice", OCC_TABLE, "e.get_mut()", "e.get_mut()"),
    ("hash_map::OccupiedEntry::get_mut and get", OCC_MAP, "e.get_mut()", "e.get()"),
]


def gen_entry_borrow():
    progs = []
    for (desc, setup, borrow, kill) in ENTRY_B:
        progs.append(dict(cat="reject", sig="", body=f"{setup} let r = {borrow}; {kill} use_it(&r);", kind="borrow",
                          desc=f"{desc}: reference obtained from the entry used after the entry is consumed or mutated"))
        progs.append(dict(cat="accept", sig="", body=f"{setup} let r = {borrow}; use_it(&r); {kill}", kind="borrow-twin",
                          desc=f"{desc}: control twin (last use before)"))
    for (desc, setup, b1, b2) in ENTRY_TWO:
        progs.append(dict(cat="reject", sig="", body=f"{setup} let a = {b1}; let b = {b2}; use_it(&a); use_it(&b);", kind="borrow",
                          desc=f"{desc}: both results alive at once"))
        progs.append(dict(cat="accept", sig="", body=f"{setup} let a = {b1}; use_it(&a); let b = {b2}; use_it(&b);", kind="borrow-twin",
                          desc=f"{desc}: control twin (sequential)"))
    return progs


def main():
    progs = gen_auto() + gen_variance() + gen_borrow() + gen_entry_borrow()
    files = {"accept": [PRELUDE], "accept_auto": [PRELUDE], "reject_auto": [PRELUDE], "reject_borrow": [PRELUDE], "maybe": [PRELUDE]}
    index = {}
    counters = {k: 0 for k in files}
    for p in progs:
        cat = p["cat"]
        if cat == "reject":
            cat = "reject_auto" if p["kind"] == "auto" else "reject_borrow"
        if cat == "accept" and p["kind"] == "auto":
            cat = "accept_auto"
        n = counters[cat]
        counters[cat] += 1
        name = {"accept": "a", "accept_auto": "t", "reject_auto": "r", "reject_borrow": "b", "maybe": "m"}[cat] + f"{n:05d}"
        if "fnbody" in p:
            line = f"fn {name}{p['sig']}{p['fnbody']}"
        else:
            line = f"fn {name}{p['sig']}() {{ {p['body']} }}"
        files[cat].append(line + "\n")
        lineno = sum(s.count("\n") for s in files[cat][:-1]) + 1
        index[name] = dict(file=f"src/{cat}.rs", line=lineno, desc=p["desc"], kind=p["kind"], cat=cat, source=line, type=p.get("type"), marker=p.get("marker"))
    os.makedirs(os.path.join(HERE, "src"), exist_ok=True)
    for cat, parts in files.items():
        open(os.path.join(HERE, "src", f"{cat}.rs"), "w").write("".join(parts))
    open(os.path.join(HERE, "src", "lib.rs"), "w").write("// generated\n#[cfg(not(feature = \"single\"))]\npub mod accept;\n#[cfg(feature = \"accept_auto\")]\npub mod accept_auto;\n#[cfg(feature = \"reject_auto\")]\npub mod reject_auto;\n#[cfg(feature = \"reject_borrow\")]\npub mod reject_borrow;\n#[cfg(feature = \"maybe\")]\npub mod maybe;\n#[cfg(feature = \"single\")]\npub mod single;\n")
    open(os.path.join(HERE, "src", "prelude.txt"), "w").write(PRELUDE)
    json.dump(dict(programs=index, inventory=[t[0] for t in TYPES]), open(os.path.join(HERE, "programs.json"), "w"), indent=0)
    print(json.dumps(counters))


if __name__ == "__main__":
    main()
