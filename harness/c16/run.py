#!/usr/bin/env python3
"""C16 runner: generate the programs, let rustc decide each batch, write evidence.

  run.py [--evidence PATH] [--replays DIR] [--single FILE]
Prints FOUND lines in the format of hbv-run; exit 0 held, 1 violation, 2 infrastructure.
"""
import bisect, json, os, re, subprocess, sys, time

HERE = os.path.dirname(os.path.abspath(__file__))
ENV = dict(os.environ, CARGO_NET_OFFLINE="true")
REPO_SRC = "/repo/src"


def cargo_check(features):
    cmd = ["cargo", "check", "--offline", "--message-format=json", "-q"]
    if features:
        cmd += ["--features", ",".join(features)]
    r = subprocess.run(cmd, cwd=HERE, env=ENV, stdout=subprocess.PIPE, stderr=subprocess.PIPE, text=True)
    errs = {}
    ice = False
    for l in r.stdout.splitlines():
        try:
            m = json.loads(l)
        except Exception:
            continue
        if m.get("reason") != "compiler-message":
            continue
        msg = m["message"]
        if msg.get("level") not in ("error", "error: internal compiler error"):
            continue
        if "internal compiler error" in msg.get("level", ""):
            ice = True
        code = (msg.get("code") or {}).get("code")
        for sp in msg.get("spans", []):
            if sp.get("is_primary"):
                errs.setdefault((sp["file_name"], sp["line_start"]), []).append((code, msg["message"][:160]))
    return r.returncode, errs, ice, r.stderr


def inventory_gaps(known):
    """Public structs/enums of the public modules that have no row in the table."""
    files = {"map.rs": "hashbrown::hash_map", "set.rs": "hashbrown::hash_set", "table.rs": "hashbrown::hash_table",
             "raw_entry.rs": "hashbrown::hash_map", "rustc_entry.rs": "hashbrown::hash_map",
             "external_trait_impls/rayon/map.rs": "hashbrown::hash_map::rayon",
             "external_trait_impls/rayon/set.rs": "hashbrown::hash_set::rayon",
             "external_trait_impls/rayon/table.rs": "hashbrown::hash_table::rayon"}
    gaps = []
    for f, mod in files.items():
        try:
            text = open(os.path.join(REPO_SRC, f)).read()
        except OSError:
            continue
        for m in re.finditer(r"^pub (?:struct|enum) (\w+)", text, re.M):
            name = m.group(1)
            path = f"{mod}::{name}"
            alt = f"hashbrown::{name}"
            if path not in known and alt not in known:
                gaps.append(path)
    return gaps


def main():
    args = sys.argv[1:]
    evidence = None
    replays = "/verif/replays"
    single = None
    while args:
        a = args.pop(0)
        if a == "--evidence":
            evidence = args.pop(0)
        elif a == "--replays":
            replays = args.pop(0)
        elif a == "--single":
            single = args.pop(0)
    t0 = time.time()
    if single:
        # replay: a stand-alone program that must be rejected
        text = open(single).read()
        open(os.path.join(HERE, "src", "single.rs"), "w").write(text)
        if not os.path.exists(os.path.join(HERE, "src", "lib.rs")):
            subprocess.run([sys.executable, os.path.join(HERE, "gen.py")], cwd=HERE, check=True, stdout=subprocess.DEVNULL)
        rc, errs, ice, stderr = cargo_check(["single"])
        os.remove(os.path.join(HERE, "src", "single.rs"))
        hit = any(f.endswith("single.rs") for (f, _l) in errs)
        if hit:
            print("REPLAY-OK the program is rejected by rustc")
            return 0
        print("REPLAY-VIOLATION property=C16 kind=program-accepted step=0 detail=rustc accepts the program")
        return 1
    r = subprocess.run([sys.executable, os.path.join(HERE, "gen.py")], cwd=HERE, stdout=subprocess.PIPE, text=True)
    if r.returncode != 0:
        print("generator failed", file=sys.stderr)
        return 2
    counts = json.loads(r.stdout.strip().splitlines()[-1])
    idx = json.load(open(os.path.join(HERE, "programs.json")))
    progs = idx["programs"]
    by_loc = {(p["file"], p["line"]): name for name, p in progs.items()}
    prelude = open(os.path.join(HERE, "src", "prelude.txt")).read()

    def names_with_errors(errs):
        out = {}
        for (f, line), lst in errs.items():
            n = by_loc.get((f, line))
            if n:
                out.setdefault(n, []).extend(lst)
        return out

    # 1. controls (borrow twins, variance controls) must compile cleanly
    rc, errs, ice, stderr = cargo_check([])
    bad_controls = names_with_errors(errs)
    if rc != 0 or ice:
        for n, e in list(bad_controls.items())[:5]:
            print(f"control program {n} ({progs[n]['desc']}) does not compile: {e[:1]}", file=sys.stderr)
        if not bad_controls:
            print(stderr[-3000:], file=sys.stderr)
        print("C16: the control batch does not compile: infrastructure problem (harness out of date with the API?)", file=sys.stderr)
        return 2
    # 2. all-Send+Sync twins: a failing twin means the type is never Send/Sync (allowed: stricter)
    rc, errs, ice, _ = cargo_check(["accept_auto"])
    never = names_with_errors(errs)
    never_keys = {(progs[n]["type"], progs[n]["marker"]) for n in never}
    # 3. programs that must be rejected
    found = []
    evaluated = counts["accept"] + counts["accept_auto"]
    nontrivial = 0
    samples = []
    per_kind = {}
    codes = {}
    for feat in ("reject_auto", "reject_borrow"):
        rc, errs, ice, stderr = cargo_check([feat])
        rejected = names_with_errors(errs)
        for n, p in progs.items():
            if p["file"] != f"src/{feat}.rs":
                continue
            evaluated += 1
            per_kind[p["kind"]] = per_kind.get(p["kind"], 0) + 1
            vacuous = p["kind"] == "auto" and (p["type"], p["marker"]) in never_keys
            if n in rejected:
                for c, _m in rejected[n]:
                    codes[c or "none"] = codes.get(c or "none", 0) + 1
                if not vacuous:
                    nontrivial += 1
                    want = {"auto": 3, "borrow": 2, "variance": 1}[p["kind"]]
                    have = sum(1 for s_ in samples if s_["kind"] == p["kind"])
                    if have < want and (p["kind"] != "auto" or nontrivial % 1499 == 1):
                        samples.append({"program": p["source"], "expected": "rejected", "rustc": rejected[n][0][0] or rejected[n][0][1], "what": p["desc"], "kind": p["kind"]})
            else:
                os.makedirs(os.path.join(replays, "C16"), exist_ok=True)
                path = os.path.join(replays, "C16", f"accepted-{n}.rs")
                open(path, "w").write(f"// hbv-c16 expect=reject\n// {p['desc']}\n" + prelude + p["source"] + "\n")
                found.append((n, p, path))
    # 4. informational: how much stricter than the table the crate is
    rc, errs, ice, _ = cargo_check(["maybe"])
    stricter = names_with_errors(errs)
    evaluated += counts["maybe"]
    gaps = inventory_gaps(set(idx["inventory"]))
    seen = set()
    for (n, p, path) in found:
        kind = {"auto": "unsound-auto-trait", "variance": "covariant-through-mutable-access", "borrow": "borrow-not-enforced"}[p["kind"]]
        sig = (kind, p.get("type") or p["desc"].split(":")[0], p.get("marker"))
        if sig in seen:
            continue
        seen.add(sig)
        print(f"FOUND property=C16 kind={kind} step=0 replay={path} detail={p['desc']}: rustc accepts `{p['source']}`")
    if not samples:
        samples.append({"note": "no rejected program?"})
    ev = {
        "property_id": "C16", "tier": os.environ.get("HBV_TIER", "quick"), "seed": int(os.environ.get("VERIF_SEED", "0") or 0),
        "level": "exploration",
        "coverage": {
            "evaluations": evaluated,
            "distinct_nontrivial": nontrivial,
            "rule": "programs = one single-line function per (public type, marker in {Send, Sync}, assignment of the witness classes {Send+Sync, Send only, Sync only, neither} to the type parameters that carry a requirement, plus each other parameter varied alone), per (type, parameter) covariant coercion, and per borrowing method x {mutate, drop, move} plus pairs of simultaneous mutable results; compiled by cargo check in separate batches (controls, all-Send+Sync twins, must-reject auto-trait, must-reject borrow/variance, allowed-but-maybe-refused); non-trivial = a program that must be rejected, is rejected, and whose all-Send+Sync twin is accepted",
            "samples": samples,
            "exhaustive": True,
            "programs_by_batch": counts,
            "must_reject_by_kind": per_kind,
            "error_codes_seen": codes,
            "never_send_or_sync_types": sorted(f"{t}: {m}" for (t, m) in never_keys),
            "allowed_by_table_but_refused_by_crate": len(stricter),
            "public_types_without_a_row": gaps,
            "accepted_but_must_be_rejected": len(found),
        },
        "assumptions": [
            "rustc's type and borrow checker decide each program; the access-requirement table (DESIGN Appendix A) and the inventory of public types are written by hand from the public API",
            "the crate being stricter than the table is not a violation",
        ],
        "wall_s": round(time.time() - t0, 2),
        "violations": len(seen),
    }
    if evidence:
        os.makedirs(os.path.dirname(evidence), exist_ok=True)
        json.dump(ev, open(evidence, "w"), indent=1)
    print(f"SUMMARY property=C16 programs={evaluated} must_reject_rejected={nontrivial} accepted_but_must_reject={len(found)} stricter={len(stricter)} gaps={gaps} wall_s={time.time() - t0:.1f}")
    return 1 if found else 0


if __name__ == "__main__":
    sys.exit(main())
