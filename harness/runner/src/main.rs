//! hbv-run <property> [--tier quick|thorough] [--seed N] [--cases N] [--evidence PATH]
//!         [--replays DIR] [--workers N]
//! Exit status: 0 held on everything explored, 1 violation (a `VIOLATION property=.. replay=..`
//! line per distinct violation), 2 infrastructure problem.

mod engine;
mod props;
mod special;
mod strategies;

use engine::Tier;

#[global_allocator]
static GLOBAL: hbv::alloc::CountingGlobal = hbv::alloc::CountingGlobal;

fn main() {
    let args: Vec<String> = std::env::args().collect();
    if args.len() < 2 {
        eprintln!("usage: hbv-run <property> [--tier T] [--seed N] [--cases N] [--evidence P] [--replays D]");
        std::process::exit(2);
    }
    let id = args[1].clone();
    let mut tier = Tier::Quick;
    let mut seed: u64 = std::env::var("VERIF_SEED").ok().and_then(|s| s.parse().ok()).unwrap_or(0);
    let mut cases = None;
    let mut evidence = None;
    let mut replays = "/verif/replays".to_string();
    let mut workers = 16usize;
    let mut dump_small: Option<String> = None;
    let mut i = 2;
    while i < args.len() {
        let v = args.get(i + 1).cloned().unwrap_or_default();
        match args[i].as_str() {
            "--tier" => tier = if v == "thorough" { Tier::Thorough } else { Tier::Quick },
            "--seed" => seed = v.parse().unwrap_or(0),
            "--cases" => cases = v.parse().ok(),
            "--evidence" => evidence = Some(v),
            "--replays" => replays = v,
            "--workers" => workers = v.parse().unwrap_or(16),
            "--crash-file" => hbv::crash::install(&v),
            "--dump-small" => dump_small = Some(v),
            x => {
                eprintln!("unknown argument {x}");
                std::process::exit(2);
            }
        }
        i += 2;
    }
    hbv::world::install_panic_hook();
    let Some(def) = props::all().into_iter().find(|d| d.id == id) else {
        eprintln!("unknown property {id}");
        std::process::exit(2);
    };
    let r = match def.id {
        "C17" => special::run_c17(tier, seed, workers),
        "C18" => {
            let mut r = engine::run_property(def, tier, seed, cases, workers);
            if r.failures.is_empty() {
                let p = special::run_c18_primitives(tier, seed, workers);
                r.stats.merge(p.stats);
                r.failures.extend(p.failures);
                r.wall_s += p.wall_s;
            }
            r
        }
        _ => engine::run_property(def, tier, seed, cases, workers),
    };
    let mut seen = std::collections::HashSet::new();
    let mut n_viol = 0;
    for f in &r.failures {
        let sig = format!("{}:{}", f.violation.property, f.violation.kind);
        if !seen.insert(sig.clone()) {
            continue;
        }
        let path = engine::write_replay(def, f, &replays, seed, tier);
        println!(
            "FOUND property={} kind={} step={} replay={} detail={}",
            f.violation.property,
            f.violation.kind,
            f.violation.step,
            path,
            f.violation.detail.replace('\n', " ")
        );
        n_viol += 1;
    }
    if let Some(dir) = dump_small {
        let _ = std::fs::create_dir_all(&dir);
        for (i, c) in r.stats.small_cases.iter().enumerate() {
            let _ = std::fs::write(format!("{dir}/small-{i:03}.case"), c);
        }
    }
    let ev = engine::evidence_json(def, tier, seed, &r, n_viol, serde_json::json!({}));
    if let Some(p) = evidence {
        if let Some(dir) = std::path::Path::new(&p).parent() {
            let _ = std::fs::create_dir_all(dir);
        }
        std::fs::write(&p, serde_json::to_string_pretty(&ev).unwrap()).expect("write evidence");
    }
    println!(
        "SUMMARY property={} tier={:?} seed={} evaluations={} distinct_nontrivial={} steps={} wall_s={:.1} found={}",
        def.id,
        tier,
        seed,
        r.stats.evaluations,
        r.stats.nontrivial.len() as u64 + r.stats.nontrivial_counted,
        r.stats.steps,
        r.wall_s,
        n_viol
    );
    std::process::exit(if n_viol > 0 { 1 } else { 0 });
}
