//! Enumerating runners: C17 (capacity / layout / probe arithmetic) and the primitive part of C18.
//! Inputs are enumerated exhaustively over the stated ranges plus boundary neighbourhoods plus a
//! seeded pseudo-random stream; every input is checked on both scanner back-ends.

use crate::engine::{Failure, RunResult, Stats, Tier};
use hbv::case::Case;
use hbv::dump::Bad;
use hbv::plan::splitmix64;
use hbv::world::Violation;
use std::sync::atomic::{AtomicBool, AtomicU64, Ordering};
use std::sync::Mutex;

struct Acc {
    evals: AtomicU64,
    boundary: AtomicU64,
    stop: AtomicBool,
    failures: Mutex<Vec<Failure>>,
    samples: Mutex<Vec<String>>,
}

impl Acc {
    fn new() -> Acc {
        Acc { evals: AtomicU64::new(0), boundary: AtomicU64::new(0), stop: AtomicBool::new(false), failures: Mutex::new(vec![]), samples: Mutex::new(vec![]) }
    }
    fn fail(&self, case: Case, b: Bad) {
        self.stop.store(true, Ordering::Relaxed);
        let mut f = self.failures.lock().unwrap();
        if f.len() < 4 {
            f.push(Failure { case, violation: Violation { property: b.0, kind: b.1.to_string(), step: 0, detail: b.2 }, reason: String::new() });
        }
    }
    fn sample(&self, s: String) {
        let mut v = self.samples.lock().unwrap();
        if v.len() < 6 {
            v.push(s);
        }
    }
}

fn arith_case(f: u64, backend: u64, kv: &[(&str, u64)]) -> Case {
    let mut c = Case::new("arith");
    c.set("f", f);
    c.set("backend", backend);
    for (k, v) in kv {
        c.set(k, *v);
    }
    c
}

fn near_boundary(cap: u128) -> bool {
    // within 2 of 2^k or 7/8 * 2^k
    for k in 0..64u32 {
        let p = 1u128 << k;
        let q = p / 8 * 7;
        if cap + 2 >= p && cap <= p + 2 {
            return true;
        }
        if p >= 8 && cap + 2 >= q && cap <= q + 2 {
            return true;
        }
    }
    false
}

fn cap_check(acc: &Acc, cap: usize, size: usize) {
    if cap == 0 {
        return;
    }
    acc.evals.fetch_add(2, Ordering::Relaxed);
    if let Err(b) = hbv::sse::arith::check_capacity_to_buckets(cap, size, 16) {
        acc.fail(arith_case(0, 0, &[("cap", cap as u64), ("size", size as u64), ("align", 1)]), b);
    }
    if let Err(b) = hbv::gen::arith::check_capacity_to_buckets(cap, size, 8) {
        acc.fail(arith_case(0, 1, &[("cap", cap as u64), ("size", size as u64), ("align", 1)]), b);
    }
}

pub fn run_c17(tier: Tier, seed: u64, workers: usize) -> RunResult {
    let t0 = std::time::Instant::now();
    let acc = Acc::new();
    let sizes: &[usize] = &[0, 1, 2, 3, 4, 8, 16, 200];
    // (a1) boundary neighbourhoods of every 2^k and 7/8 * 2^k over the whole usize range
    let radius: i128 = if tier == Tier::Quick { 4096 } else { 1 << 16 };
    std::thread::scope(|sc| {
        for w in 0..workers {
            let acc = &acc;
            sc.spawn(move || {
                for k in (0..64u32).filter(|k| *k as usize % workers == w) {
                    let p = 1i128 << k;
                    for base in [p, p / 8 * 7] {
                        for d in -radius..=radius {
                            let c = base + d;
                            if c < 1 || c > usize::MAX as i128 {
                                continue;
                            }
                            for s in sizes {
                                cap_check(acc, c as usize, *s);
                            }
                            if d.abs() <= 2 {
                                acc.boundary.fetch_add(2 * sizes.len() as u64, Ordering::Relaxed);
                            }
                        }
                    }
                    if acc.stop.load(Ordering::Relaxed) {
                        return;
                    }
                }
            });
        }
    });
    acc.sample(format!("capacity_to_buckets(cap = 2^k + d and 7/8*2^k + d, |d| <= {radius}, k in 0..64) x element sizes {:?} x both group widths", sizes));
    // (a2) exhaustive low range
    let hi: u64 = if tier == Tier::Quick { 1 << 21 } else { 1 << 32 };
    let ex_sizes: &[usize] = if tier == Tier::Quick { sizes } else { &[0, 1, 2, 4] };
    std::thread::scope(|sc| {
        for w in 0..workers as u64 {
            let acc = &acc;
            sc.spawn(move || {
                let chunk = hi / workers as u64;
                let (lo, up) = (1 + w * chunk, if w as usize == workers - 1 { hi } else { (w + 1) * chunk });
                for c in lo..=up {
                    for s in ex_sizes {
                        cap_check(acc, c as usize, *s);
                    }
                    if c & 0xfffff == 0 && acc.stop.load(Ordering::Relaxed) {
                        return;
                    }
                }
            });
        }
    });
    acc.sample(format!("capacity_to_buckets exhaustively for cap in 1..={hi} x element sizes {:?}", ex_sizes));
    // (a3) pseudo-random 64-bit capacities of every magnitude
    let n_rand: u64 = if tier == Tier::Quick { 400_000 } else { 20_000_000 };
    std::thread::scope(|sc| {
        for w in 0..workers as u64 {
            let acc = &acc;
            sc.spawn(move || {
                let mut x = seed.wrapping_mul(0x9E3779B97F4A7C15) ^ w;
                for _ in 0..n_rand / workers as u64 {
                    x = splitmix64(x);
                    let c = (x >> (splitmix64(x ^ 1) % 64)) as usize;
                    cap_check(acc, c, sizes[(x % sizes.len() as u64) as usize]);
                }
            });
        }
    });
    // (b) bucket_mask_to_capacity
    for k in 0..64u32 {
        acc.evals.fetch_add(2, Ordering::Relaxed);
        acc.boundary.fetch_add(2, Ordering::Relaxed);
        if let Err(b) = hbv::sse::arith::check_bucket_mask_to_capacity(k) {
            acc.fail(arith_case(1, 0, &[("k", k as u64)]), b);
        }
        if let Err(b) = hbv::gen::arith::check_bucket_mask_to_capacity(k) {
            acc.fail(arith_case(1, 1, &[("k", k as u64)]), b);
        }
    }
    // (c) layouts: sizes x alignments x bucket counts
    let mut lsizes: Vec<usize> = (0..=64).collect();
    lsizes.extend([72, 96, 128, 200, 256, 1000, 4096, 1 << 20, 1 << 30, 1 << 40, isize::MAX as usize / 2, isize::MAX as usize / 2 + 1, (isize::MAX as usize / 2) & !4095, isize::MAX as usize & !4095, 1 << 62]);
    let mut x = seed ^ 0xC17;
    for _ in 0..(if tier == Tier::Quick { 200 } else { 20000 }) {
        x = splitmix64(x);
        lsizes.push((x >> (splitmix64(x ^ 7) % 64)) as usize);
    }
    for size in &lsizes {
        for ak in 0..=12u32 {
            let align = 1usize << ak;
            // only layouts of real types: size is a multiple of the alignment
            let size = size / align * align;
            // the layout hook may hit an unsafe-precondition abort on a broken tree: publish the input
            hbv::crash::set_current(0, &arith_case(2, 2, &[("size", size as u64), ("align", align as u64), ("k", 64)]).to_text(&[]));
            for k in 0..64u32 {
                acc.evals.fetch_add(2, Ordering::Relaxed);
                let interesting = size == 0 || k >= 56 || (size as u128) << k >= 1u128 << 62;
                if interesting {
                    acc.boundary.fetch_add(2, Ordering::Relaxed);
                }
                if let Err(b) = hbv::sse::arith::check_layout(size, align, k) {
                    acc.fail(arith_case(2, 0, &[("size", size as u64), ("align", align as u64), ("k", k as u64)]), b);
                }
                if let Err(b) = hbv::gen::arith::check_layout(size, align, k) {
                    acc.fail(arith_case(2, 1, &[("size", size as u64), ("align", align as u64), ("k", k as u64)]), b);
                }
            }
        }
    }
    hbv::crash::clear_current(0);
    acc.sample(format!("calculate_layout_for(size, max(align, WIDTH), 2^k) for {} sizes (0..=64, 72 .. 2^62, isize::MAX/2 +- 1, random) rounded down to multiples of align in 1..=4096, k in 0..64", lsizes.len()));
    // (d) probe sequences
    let kmax: u32 = if tier == Tier::Quick { 20 } else { 26 };
    std::thread::scope(|sc| {
        for w in 0..workers {
            let acc = &acc;
            sc.spawn(move || {
                for k in (0..=kmax).filter(|k| (*k as usize) % workers == w) {
                    let buckets = 1u64 << k;
                    let starts: Vec<u64> = if k <= 12 {
                        (0..buckets).collect()
                    } else {
                        let mut v = vec![0, 1, 15, 16, 17, buckets - 1, buckets - 16, buckets - 17, buckets / 2, buckets / 2 - 1];
                        let mut x = seed ^ (k as u64) << 32;
                        let extra = if tier == Tier::Quick { 24 } else { 40 };
                        for _ in 0..extra {
                            x = splitmix64(x);
                            v.push(x % buckets);
                        }
                        v
                    };
                    for s in starts {
                        let hash = s | (splitmix64(s ^ seed) << 32 << (k.saturating_sub(32)));
                        let hash = (hash & !(buckets - 1)) | s;
                        for (be, r) in [(0u64, hbv::sse::arith::check_probe(k, hash)), (1u64, hbv::gen::arith::check_probe(k, hash))] {
                            match r {
                                Ok(n) => {
                                    acc.evals.fetch_add(n as u64, Ordering::Relaxed);
                                    if s < 16 || s + 17 > buckets {
                                        acc.boundary.fetch_add(1, Ordering::Relaxed);
                                    }
                                }
                                Err(b) => acc.fail(arith_case(3, be, &[("k", k as u64), ("hash", hash)]), b),
                            }
                        }
                        if acc.stop.load(Ordering::Relaxed) {
                            return;
                        }
                    }
                }
            });
        }
    });
    acc.sample(format!("probe sequence of 2^k buckets, k in 0..={kmax}: every start position for k <= 12, boundary + sampled starts above; all buckets/WIDTH positions checked pairwise distinct and congruent modulo WIDTH"));
    // (e) typed layouts and (f) layouts observed by the allocator
    for (be, r) in [(0u64, hbv::sse::arith::check_typed_layouts()), (1u64, hbv::gen::arith::check_typed_layouts())] {
        match r {
            Ok(n) => {
                acc.evals.fetch_add(n as u64, Ordering::Relaxed);
                acc.boundary.fetch_add(n as u64, Ordering::Relaxed);
            }
            Err(b) => acc.fail(arith_case(4, be, &[]), b),
        }
    }
    // (g) requests through the public API of live tables: len + additional around every boundary that is
    // cheap to allocate, and around the ends of the usize range (no memory is touched there: the request is
    // reported as overflow or refused by the allocator)
    hbv::world::install_panic_hook();
    let lens: [usize; 8] = [0, 1, 2, 3, 7, 28, 29, 100];
    std::thread::scope(|sc| {
        for w in 0..workers {
            let acc = &acc;
            sc.spawn(move || {
                let mut reqs: Vec<(usize, usize, u64)> = Vec::new();
                for (li, len) in lens.iter().copied().enumerate() {
                    for etype in 0..4u64 {
                        let kmax = if etype == 3 { 13 } else if tier == Tier::Quick { 17 } else { 21 };
                        for k in 2..=kmax {
                            let p = 1usize << k;
                            for base in [p, p / 8 * 7] {
                                for d in -2i64..=2 {
                                    let target = base as i64 + d;
                                    if target > len as i64 {
                                        reqs.push((len, target as usize - len, etype));
                                    }
                                    if target > 0 && li % 2 == 1 {
                                        reqs.push((len, target as usize, etype));
                                    }
                                }
                            }
                        }
                        for e in 0..=4usize {
                            reqs.push((len, (usize::MAX - len).wrapping_add(e).max(1), etype));
                            reqs.push((len, usize::MAX - len - e, etype));
                            reqs.push((len, usize::MAX - e, etype));
                            reqs.push((len, (isize::MAX as usize) - 2 + e, etype));
                            reqs.push((len, (isize::MAX as usize) - len - 2 + e, etype));
                        }
                        for k in [56u32, 59, 60, 61, 62, 63] {
                            for d in -1i64..=1 {
                                reqs.push((len, ((1u128 << k) as i128 + d as i128) as usize, etype));
                                reqs.push((len, (((1u128 << k) / 8 * 7) as i128 + d as i128) as usize - len, etype));
                            }
                        }
                    }
                }
                for (i, (len, additional, etype)) in reqs.into_iter().enumerate() {
                    if i % workers != w {
                        continue;
                    }
                    acc.evals.fetch_add(2, Ordering::Relaxed);
                    if len > 0 {
                        acc.boundary.fetch_add(2, Ordering::Relaxed);
                    }
                    let kv = [("len", len as u64), ("additional", additional as u64), ("etype", etype)];
                    if let Err(b) = hbv::sse::arith::check_request(len, additional, etype) {
                        acc.fail(arith_case(5, 0, &kv), b);
                    }
                    if let Err(b) = hbv::gen::arith::check_request(len, additional, etype) {
                        acc.fail(arith_case(5, 1, &kv), b);
                    }
                    if acc.stop.load(Ordering::Relaxed) {
                        return;
                    }
                }
            });
        }
    });
    acc.sample("try_reserve / reserve through HashTable and HashSet holding len in {0,1,2,3,7,28,29,100} elements of 4, 8, 16 and 200 bytes: len + additional within 2 of every 2^k and 7/8*2^k (k <= 17 quick / 21 thorough), additional within 4 of usize::MAX - len, usize::MAX, isize::MAX and around 2^56..2^63; Ok needs capacity() >= len + additional, a panic or a wrapped sum is a violation".to_string());
    finish(acc, t0)
}

fn finish(acc: Acc, t0: std::time::Instant) -> RunResult {
    let mut stats = Stats::default();
    stats.evaluations = acc.evals.load(Ordering::Relaxed);
    stats.nontrivial_counted = acc.boundary.load(Ordering::Relaxed);
    stats.samples = std::mem::take(&mut *acc.samples.lock().unwrap());
    let failures = std::mem::take(&mut *acc.failures.lock().unwrap());
    RunResult { stats, failures, wall_s: t0.elapsed().as_secs_f64() }
}

fn prim_case(backend: u64, bytes: &[u8; 16], tag: u8) -> Case {
    let mut c = Case::new("prim");
    c.set("backend", backend);
    c.set("lo", u64::from_le_bytes(bytes[..8].try_into().unwrap()));
    c.set("hi", u64::from_le_bytes(bytes[8..].try_into().unwrap()));
    c.set("tag", tag as u64);
    c
}

/// C18 (b): every value of every adjacent byte pair at every position of an otherwise EMPTY /
/// FULL / DELETED / mixed group, with the tags that matter (all 128 in the thorough tier), plus
/// pseudo-random groups of valid control bytes and of arbitrary bytes.
pub fn run_c18_primitives(tier: Tier, seed: u64, workers: usize) -> RunResult {
    let t0 = std::time::Instant::now();
    let acc = Acc::new();
    let backgrounds: [[u8; 16]; 4] = [
        [0xFF; 16],
        [0x80; 16],
        [0x2A; 16],
        [0x00, 0xFF, 0x80, 0x7F, 0x01, 0xFF, 0x80, 0x7E, 0x2A, 0x2B, 0xFF, 0x80, 0x00, 0x01, 0x7F, 0xFF],
    ];
    std::thread::scope(|sc| {
        for w in 0..workers {
            let acc = &acc;
            sc.spawn(move || {
                for pos in (0..15usize).filter(|p| p % workers == w % 15) {
                    if w >= 15 {
                        continue;
                    }
                    let n_bg = if tier == Tier::Quick { 2 } else { 4 };
                    for bg in backgrounds.iter().rev().take(n_bg) {
                        for pair in 0..=0xFFFFu32 {
                            let mut bytes = *bg;
                            bytes[pos] = pair as u8;
                            bytes[pos + 1] = (pair >> 8) as u8;
                            let (a, b) = (bytes[pos] & 0x7f, bytes[pos + 1] & 0x7f);
                            let tags: Vec<u8> = if tier == Tier::Quick {
                                let mut t = vec![a, b, a ^ 1, bg[0] & 0x7f];
                                t.sort_unstable();
                                t.dedup();
                                t
                            } else {
                                (0..128u8).collect()
                            };
                            for tag in tags {
                                acc.evals.fetch_add(2, Ordering::Relaxed);
                                let valid = bytes.iter().all(|x| *x & 0x80 == 0 || *x == 0xFF || *x == 0x80);
                                if valid {
                                    acc.boundary.fetch_add(2, Ordering::Relaxed);
                                }
                                if let Err(b) = hbv::sse::arith::check_group(&bytes, tag) {
                                    acc.fail(prim_case(0, &bytes, tag), b);
                                }
                                if let Err(b) = hbv::gen::arith::check_group(&bytes, tag) {
                                    acc.fail(prim_case(1, &bytes, tag), b);
                                }
                            }
                        }
                        if acc.stop.load(Ordering::Relaxed) {
                            return;
                        }
                    }
                }
            });
        }
    });
    acc.sample("all 2^16 values of the adjacent byte pair at positions (p, p+1), p in 0..15, inside background groups (quick: mixed and all-FULL 0x2a; thorough: also all EMPTY, all DELETED); tags: those of the two bytes, a low-bit neighbour and the background's (all 128 in the thorough tier); every primitive compared with its bytewise definition on both back-ends".to_string());
    let n_rand: u64 = if tier == Tier::Quick { 300_000 } else { 20_000_000 };
    std::thread::scope(|sc| {
        for w in 0..workers as u64 {
            let acc = &acc;
            sc.spawn(move || {
                let mut x = seed.wrapping_mul(0xD1B54A32D192ED03) ^ w ^ 0xC18;
                for i in 0..n_rand / workers as u64 {
                    let mut bytes = [0u8; 16];
                    for j in 0..16 {
                        x = splitmix64(x);
                        bytes[j] = if i % 4 == 3 {
                            x as u8
                        } else {
                            // valid control bytes, tags drawn from a small alphabet so matches are common
                            match x % 8 {
                                0 => 0xFF,
                                1 => 0x80,
                                _ => ((x >> 8) % 6) as u8 | (((x >> 16) & 1) as u8) << 6,
                            }
                        };
                    }
                    x = splitmix64(x);
                    let tag = if x % 2 == 0 { bytes[(x >> 8) as usize % 16] & 0x7f } else { (x >> 16) as u8 & 0x7f };
                    acc.evals.fetch_add(2, Ordering::Relaxed);
                    if i % 4 != 3 {
                        acc.boundary.fetch_add(2, Ordering::Relaxed);
                    }
                    if let Err(b) = hbv::sse::arith::check_group(&bytes, tag) {
                        acc.fail(prim_case(0, &bytes, tag), b);
                    }
                    if let Err(b) = hbv::gen::arith::check_group(&bytes, tag) {
                        acc.fail(prim_case(1, &bytes, tag), b);
                    }
                    if i == 0 && w == 0 {
                        acc.sample(format!("random group {:02x?} tag {:#x}", bytes, tag));
                    }
                }
            });
        }
    });
    finish(acc, t0)
}
