//! Property definitions: generator, evaluation, non-triviality rule.

use crate::engine::{PropDef, Tier};
use crate::strategies::*;
use hbv::case::Case;
use hbv::dump::*;
use hbv::outcome::Outcome;
use hbv::specs::map as m;
use proptest::strategy::BoxedStrategy;

fn eval_plain(case: &Case) -> Outcome {
    hbv::run_case(case)
}

const STRUCT_LABELS: u32 = L_TOMBSTONE | L_REHASH_IN_PLACE | L_RESIZE_UP | L_RESIZE_DOWN | L_FIXUP | L_MIRROR_PROBE;

// ---------------------------------------------------------------------------------------------
// C01

static C01_WEIGHTS: &[(u16, u32)] = &[
    (m::INSERT, 20),
    (m::TRY_INSERT, 4),
    (m::GET, 8),
    (m::GET_MUT, 4),
    (m::REMOVE, 14),
    (m::ENTRY, 8),
    (m::ENTRY_REF, 6),
    (m::EXTEND, 3),
    (m::REBUILD, 1),
    (m::CLEAR, 1),
    (m::RESERVE, 2),
    (m::SHRINK_TO_FIT, 2),
    (m::SHRINK_TO, 2),
    (m::RETAIN, 2),
    (m::FILL_TO_CAPACITY, 3),
    (m::FILL_EXACT, 3),
    (m::REMOVE_RUN, 5),
    (m::REMOVE_ALL_BUT, 2),
    (m::CHURN, 3),
    (m::RESERVE_TO_BOUNDARY, 1),
    (m::INSERT_UNIQUE_UNCHECKED, 2),
    (m::REMOVE_NTH, 4),
    (m::GET_ABSENT, 2),
    (m::REHASH_SETUP, 2),
];

fn c01_strategy(tier: Tier) -> BoxedStrategy<Case> {
    map_case_strategy(MapGen {
        prop: 1,
        weights: C01_WEIGHTS,
        max_ops: if tier == Tier::Quick { 120 } else { 400 },
        generic_pct: 20,
        plain_pct: 30,
    })
}

fn c01_nontrivial(_c: &Case, o: &Outcome) -> bool {
    o.labels & L_REMOVE_PRESENT != 0 && o.labels & STRUCT_LABELS != 0
}

pub static C01: PropDef = PropDef {
    id: "C01",
    rule: "cases = (hash plan, key universe, initial capacity, back-end, element flavour, op list) drawn by proptest; \
           distinct by FNV digest of the canonical text; non-trivial = the case removed a present key AND reached at \
           least one of {tombstone, in-place rehash, resize, small-table fix-up, probe through the mirror bytes}",
    level: "exploration",
    cases_quick: 24_000,
    cases_thorough: 400_000,
    strategy: c01_strategy,
    eval: eval_plain,
    nontrivial: c01_nontrivial,
    specs: hbv::specs::MAP_OPS,
    assumptions: &[
        "the association-list model and the probe simulation of the validator are correct",
        "the verif-hooks dump reads the table's fields faithfully",
        "table sizes explored are bounded (<= a few thousand buckets)",
    ],
    prop_labels: &[(L_PROP_A, "entry_at_growth_left_0"), (L_PROP_B, "probe_window_with_tombstone")],
};

// ---------------------------------------------------------------------------------------------
// C04: fault enumeration

static C04_WEIGHTS: &[(u16, u32)] = &[
    (m::INSERT, 16),
    (m::TRY_INSERT, 3),
    (m::GET, 2),
    (m::GET_MUT, 2),
    (m::REMOVE, 10),
    (m::ENTRY, 8),
    (m::ENTRY_REF, 6),
    (m::EXTEND, 5),
    (m::REBUILD, 2),
    (m::CLEAR, 3),
    (m::RESERVE, 4),
    (m::SHRINK_TO_FIT, 3),
    (m::SHRINK_TO, 3),
    (m::RETAIN, 4),
    (m::FILL_TO_CAPACITY, 4),
    (m::FILL_EXACT, 3),
    (m::REMOVE_RUN, 8),
    (m::REMOVE_ALL_BUT, 3),
    (m::CHURN, 3),
    (m::INSERT_UNIQUE_UNCHECKED, 2),
    (m::REMOVE_NTH, 3),
    (m::DRAIN, 3),
    (m::EXTRACT_IF, 4),
    (m::CLONE_TO_OTHER, 4),
    (m::CLONE_FROM_OTHER, 5),
    (m::SWAP, 2),
    (m::INTO_ITER, 3),
    (m::DROP_RECREATE, 2),
    (m::RAW_ENTRY, 3),
    (m::RUSTC_ENTRY, 3),
    (m::ITER, 1),
    (m::TRY_RESERVE, 2),
    (m::REHASH_SETUP, 6),
];

fn c04_strategy(tier: Tier) -> BoxedStrategy<Case> {
    use proptest::prelude::*;
    (
        map_case_strategy(MapGen {
            prop: 4,
            weights: C04_WEIGHTS,
            max_ops: if tier == Tier::Quick { 40 } else { 80 },
            generic_pct: 15,
            plain_pct: 40,
        }),
        0u64..65536,
    )
        .prop_map(|(mut c, frac)| {
            if !c.ops.is_empty() {
                // bias the fault towards the later operations (richer states)
                let n = c.ops.len();
                let idx = hbv::case::frac_index(frac, n);
                let idx = (idx + n) / 2;
                c.set("fault_step", idx.min(n - 1) as u64);
            }
            c
        })
        .boxed()
}

fn eval_c04(case: &Case) -> Outcome {
    // one fault-free traced run: per step, transition labels and callback counts per class
    let mut dry_case = case.clone();
    dry_case.header.remove("fault_step");
    dry_case.set("trace", 1);
    let mut total = hbv::run_case(&dry_case);
    if total.violation.is_some() || case.ops.is_empty() {
        total.repro = Some(dry_case);
        return total;
    }
    let per_step = std::mem::take(&mut total.per_step);
    // fault steps: the generated one, plus steps that rehashed in place / resized (up to 4 in all)
    let mut steps: Vec<usize> = Vec::new();
    if let Some(s) = case.header.get("fault_step") {
        steps.push((*s as usize).min(case.ops.len() - 1));
    }
    for want in [L_REHASH_IN_PLACE, L_REHASH_IN_PLACE, L_RESIZE_UP, L_RESIZE_DOWN] {
        if let Some(i) = per_step.iter().enumerate().rev().position(|(i, (l, _))| l & want != 0 && !steps.contains(&i)) {
            let i = per_step.len() - 1 - i;
            if !steps.contains(&i) && steps.len() < 4 {
                steps.push(i);
            }
        }
    }
    let mut runs = 0u64;
    for step in steps {
        let Some((_, counts)) = per_step.get(step) else { continue };
        for class in 0..hbv::world::NCLASS {
            let n = counts[class];
            if n == 0 {
                continue;
            }
            // every k up to 64, then a geometric sample, always the last one
            let mut ks: Vec<u64> = (1..=n.min(64)).collect();
            let mut k = 64u64;
            while k < n {
                k = k + k / 4 + 1;
                if k < n {
                    ks.push(k);
                }
            }
            if n > 64 {
                ks.push(n);
            }
            for k in ks {
                let mut c = case.clone();
                c.set("fault_step", step as u64);
                c.set("fault_class", class as u64);
                c.set("fault_k", k);
                let out = hbv::run_case(&c);
                runs += 1;
                total.labels |= out.labels;
                for (name, v) in &out.counters {
                    if *name == "faults_fired" {
                        total.count("faults_fired", *v);
                    }
                }
                if let Some(v) = out.violation {
                    total.violation = Some(hbv::world::Violation {
                        detail: format!("[fault at step {} class {} k {}] {}", step, hbv::world::CLASS_NAMES[class], k, v.detail),
                        ..v
                    });
                    total.repro = Some(c);
                    total.count("fault_runs", runs);
                    return total;
                }
            }
        }
    }
    total.count("fault_runs", runs);
    total
}

fn c04_nontrivial(_c: &Case, o: &Outcome) -> bool {
    o.counters.iter().any(|c| c.0 == "faults_fired" && c.1 > 0) && o.labels & (L_PROP_D | L_PROP_E | L_PROP_F) != 0
}

pub static C04: PropDef = PropDef {
    id: "C04",
    rule: "case = (hash plan, element flavour, prefix history, target operation, suffix); the evaluation first runs it \
           fault-free counting invocations per callback class during the target operation, then re-runs it once for EVERY \
           (class, k) with k up to that count (all k <= 64, geometric sample above) with the k-th invocation panicking; \
           non-trivial = at least one injected panic unwound out of the operation AND it fired during a growth into a new \
           allocation, under in-place-rehash conditions, or in a Clone/Drop/closure/Into/iterator callback",
    level: "fault_enumeration",
    cases_quick: 1600,
    cases_thorough: 30_000,
    strategy: c04_strategy,
    eval: eval_c04,
    nontrivial: c04_nontrivial,
    specs: hbv::specs::MAP_OPS,
    assumptions: &[
        "fault points are exhaustive per generated (state, operation), not over all states",
        "S::clone / A::clone are not injected (DESIGN 11.3)",
        "a second panic while unwinding is outside the property and never injected",
    ],
    prop_labels: &[
        (L_PROP_C, "fault_unwound"),
        (L_PROP_D, "fault_during_growth_into_new_block"),
        (L_PROP_E, "hash_fault_under_rehash_in_place_conditions"),
        (L_PROP_F, "fault_in_clone_drop_closure_into_or_iterator"),
    ],
};

pub fn all() -> Vec<&'static PropDef> {
    vec![&C01, &C04]
}
