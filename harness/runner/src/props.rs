//! Property definitions: generator, evaluation, non-triviality rule.

use crate::engine::{PropDef, Tier};
use crate::strategies::*;
use hbv::case::Case;
use hbv::dump::*;
use hbv::outcome::Outcome;
use hbv::specs::map as m;
use hbv::specs::table as t;
use hbv::specs::set as st;
use hbv::specs::lay as ly;
use proptest::strategy::BoxedStrategy;

fn eval_plain(case: &Case) -> Outcome {
    hbv::run_case(case)
}

const STRUCT_LABELS: u32 = L_TOMBSTONE | L_REHASH_IN_PLACE | L_RESIZE_UP | L_RESIZE_DOWN | L_FIXUP | L_MIRROR_PROBE;

// ---------------------------------------------------------------------------------------------
// C01

static C01_WEIGHTS: &[(u16, u32)] = &[
    (m::INSERT, 20),
    (m::TRY_INSERT, 4),
    (m::GET, 8),
    (m::GET_MUT, 4),
    (m::REMOVE, 14),
    (m::ENTRY, 8),
    (m::ENTRY_REF, 6),
    (m::EXTEND, 3),
    (m::REBUILD, 1),
    (m::CLEAR, 1),
    (m::RESERVE, 2),
    (m::SHRINK_TO_FIT, 2),
    (m::SHRINK_TO, 2),
    (m::RETAIN, 2),
    (m::FILL_TO_CAPACITY, 3),
    (m::FILL_EXACT, 3),
    (m::REMOVE_RUN, 5),
    (m::REMOVE_ALL_BUT, 2),
    (m::CHURN, 3),
    (m::RESERVE_TO_BOUNDARY, 1),
    (m::INSERT_UNIQUE_UNCHECKED, 2),
    (m::REMOVE_NTH, 4),
    (m::GET_ABSENT, 2),
    (m::REHASH_SETUP, 2),
];

fn c01_strategy(tier: Tier) -> BoxedStrategy<Case> {
    use proptest::prelude::*;
    let maps = map_case_strategy(MapGen {
        prop: 1,
        weights: C01_WEIGHTS,
        max_ops: if tier == Tier::Quick { 120 } else { 400 },
        generic_pct: 20,
        plain_pct: 30,
    });
    // HashMap<E, E> over the element-layout family (zero-sized pairs, over-aligned, 400-byte pairs): insert /
    // remove / get / retain / extract_if / clone against a multiset of ids
    let lay = lay_case_strategy(LayGen { prop: 1, weights: C10_LAY_WEIGHTS, max_ops: 80, generic_pct: 20 })
        .prop_map(|mut c| {
            c.set("coll", 2);
            c
        })
        .boxed();
    union2(maps, 14, lay, 1)
}

fn c01_nontrivial(c: &Case, o: &Outcome) -> bool {
    if c.kind == "lay" {
        return o.steps >= 6;
    }
    o.labels & L_REMOVE_PRESENT != 0 && o.labels & STRUCT_LABELS != 0
}

pub static C01: PropDef = PropDef {
    id: "C01",
    rule: "cases = (hash plan, key universe, initial capacity, back-end, element flavour, op list) drawn by proptest; \
           distinct by FNV digest of the canonical text; non-trivial = the case removed a present key AND reached at \
           least one of {tombstone, in-place rehash, resize, small-table fix-up, probe through the mirror bytes}",
    level: "exploration",
    cases_quick: 60_000,
    cases_thorough: 1_500_000,
    strategy: c01_strategy,
    eval: eval_plain,
    nontrivial: c01_nontrivial,
    specs: hbv::specs::MAP_OPS,
    assumptions: &[
        "the association-list model and the probe simulation of the validator are correct",
        "the verif-hooks dump reads the table's fields faithfully",
        "table sizes explored are bounded (<= a few thousand buckets)",
    ],
    prop_labels: &[],
};

// ---------------------------------------------------------------------------------------------
// C04: fault enumeration

static C04_WEIGHTS: &[(u16, u32)] = &[
    (m::INSERT, 16),
    (m::TRY_INSERT, 3),
    (m::GET, 2),
    (m::GET_MUT, 2),
    (m::REMOVE, 10),
    (m::ENTRY, 8),
    (m::ENTRY_REF, 6),
    (m::EXTEND, 5),
    (m::REBUILD, 2),
    (m::CLEAR, 3),
    (m::RESERVE, 4),
    (m::SHRINK_TO_FIT, 3),
    (m::SHRINK_TO, 3),
    (m::RETAIN, 4),
    (m::FILL_TO_CAPACITY, 4),
    (m::FILL_EXACT, 3),
    (m::REMOVE_RUN, 8),
    (m::REMOVE_ALL_BUT, 3),
    (m::CHURN, 3),
    (m::INSERT_UNIQUE_UNCHECKED, 2),
    (m::REMOVE_NTH, 3),
    (m::DRAIN, 3),
    (m::EXTRACT_IF, 4),
    (m::CLONE_TO_OTHER, 4),
    (m::CLONE_FROM_OTHER, 5),
    (m::SWAP, 2),
    (m::INTO_ITER, 3),
    (m::DROP_RECREATE, 2),
    (m::RAW_ENTRY, 3),
    (m::RUSTC_ENTRY, 3),
    (m::ITER, 1),
    (m::TRY_RESERVE, 2),
    (m::REHASH_SETUP, 6),
];

static C04_TABLE_WEIGHTS: &[(u16, u32)] = &[
    (t::INSERT_UNIQUE, 18),
    (t::INSERT_DUP, 3),
    (t::FIND, 2),
    (t::FIND_MUT, 2),
    (t::FIND_ENTRY, 10),
    (t::ENTRY, 12),
    (t::RETAIN, 5),
    (t::EXTRACT_IF, 5),
    (t::DRAIN, 3),
    (t::CLEAR, 3),
    (t::RESERVE, 4),
    (t::TRY_RESERVE, 2),
    (t::SHRINK_TO_FIT, 3),
    (t::SHRINK_TO, 3),
    (t::CLONE_SWAP, 6),
    (t::FILL_TO_CAPACITY, 4),
    (t::REMOVE_RUN, 6),
    (t::REMOVE_ALL_BUT, 2),
    (t::REHASH_SETUP, 6),
    (t::REMOVE_NTH, 3),
    (t::ITER, 2),
    (t::ITER_HASH, 1),
];

static C04_SET_WEIGHTS: &[(u16, u32)] = &[
    (st::INSERT, 14),
    (st::INSERT_RANGE, 5),
    (st::REPLACE, 5),
    (st::REMOVE, 8),
    (st::GET_OR_INSERT, 5),
    (st::GET_OR_INSERT_WITH, 6),
    (st::ENTRY, 8),
    (st::SWAP, 6),
    (st::ALGEBRA, 3),
    (st::OPERATORS, 5),
    (st::ASSIGN, 10),
    (st::EXTEND, 5),
    (st::RETAIN, 5),
    (st::EXTRACT_IF, 5),
    (st::DRAIN, 3),
    (st::CLEAR, 2),
    (st::SHRINK_TO_FIT, 3),
    (st::RESERVE, 3),
    (st::ITER, 2),
    (st::FILL_TO_CAPACITY, 4),
    (st::REMOVE_RUN, 6),
    (st::CLONE, 6),
    (st::MIRROR, 2),
    (st::REBUILD, 2),
];

fn c04_strategy(tier: Tier) -> BoxedStrategy<Case> {
    use proptest::prelude::*;
    let n = if tier == Tier::Quick { 40 } else { 80 };
    (
        union2(
            union2(
                map_case_strategy(MapGen { prop: 4, weights: C04_WEIGHTS, max_ops: n, generic_pct: 15, plain_pct: 40 }),
                3,
                table_case_strategy(TableGen { prop: 4, weights: C04_TABLE_WEIGHTS, max_ops: n, generic_pct: 15, plain_pct: 40 }),
                1,
            ),
            // debugging aid: HBV_C04_ONLY_SETS=1 makes almost every program a HashSet program
            if std::env::var_os("HBV_C04_ONLY_SETS").is_some() { 1 } else { 400 },
            set_case_strategy(SetGen { prop: 4, weights: C04_SET_WEIGHTS, max_ops: n, generic_pct: 15, plain_pct: 40 }),
            80,
        ),
        0u64..65536,
    )
        .prop_map(|(mut c, frac)| {
            if !c.ops.is_empty() {
                // bias the fault towards the later operations (richer states)
                let n = c.ops.len();
                let idx = hbv::case::frac_index(frac, n);
                let idx = (idx + n) / 2;
                c.set("fault_step", idx.min(n - 1) as u64);
            }
            c
        })
        .boxed()
}

fn eval_c04(case: &Case) -> Outcome {
    // one fault-free traced run: per step, transition labels and callback counts per class
    let mut dry_case = case.clone();
    dry_case.header.remove("fault_step");
    dry_case.set("trace", 1);
    let mut total = hbv::run_case(&dry_case);
    if total.violation.is_some() || case.ops.is_empty() {
        total.repro = Some(dry_case);
        return total;
    }
    let per_step = std::mem::take(&mut total.per_step);
    // fault steps: the generated one, plus steps that rehashed in place / resized (up to 4 in all)
    let mut steps: Vec<usize> = Vec::new();
    if let Some(s) = case.header.get("fault_step") {
        steps.push((*s as usize).min(case.ops.len() - 1));
    }
    for want in [L_REHASH_IN_PLACE, L_REHASH_IN_PLACE, L_RESIZE_UP, L_RESIZE_DOWN] {
        if let Some(i) = per_step.iter().enumerate().rev().position(|(i, (l, _))| l & want != 0 && !steps.contains(&i)) {
            let i = per_step.len() - 1 - i;
            if !steps.contains(&i) && steps.len() < 4 {
                steps.push(i);
            }
        }
    }
    let mut runs = 0u64;
    for step in steps {
        let Some((_, counts)) = per_step.get(step) else { continue };
        for class in 0..hbv::world::NCLASS {
            let n = counts[class];
            if n == 0 {
                continue;
            }
            // every k up to 64, then a geometric sample, always the last one
            let mut ks: Vec<u64> = (1..=n.min(64)).collect();
            let mut k = 64u64;
            while k < n {
                k = k + k / 4 + 1;
                if k < n {
                    ks.push(k);
                }
            }
            if n > 64 {
                ks.push(n);
            }
            for k in ks {
                let mut c = case.clone();
                c.set("fault_step", step as u64);
                c.set("fault_class", class as u64);
                c.set("fault_k", k);
                let out = hbv::run_case(&c);
                runs += 1;
                total.labels |= out.labels;
                for (name, v) in &out.counters {
                    if *name == "faults_fired" {
                        total.count("faults_fired", *v);
                    }
                }
                if let Some(v) = out.violation {
                    total.violation = Some(hbv::world::Violation {
                        detail: format!("[fault at step {} class {} k {}] {}", step, hbv::world::CLASS_NAMES[class], k, v.detail),
                        ..v
                    });
                    total.repro = Some(c);
                    total.count("fault_runs", runs);
                    return total;
                }
            }
        }
    }
    total.count("fault_runs", runs);
    total
}

fn c04_nontrivial(_c: &Case, o: &Outcome) -> bool {
    o.counters.iter().any(|c| c.0 == "faults_fired" && c.1 > 0) && o.labels & (L_FAULT_GROWTH | L_FAULT_REHASH | L_FAULT_OTHER) != 0
}

pub static C04: PropDef = PropDef {
    id: "C04",
    rule: "case = (hash plan, element flavour, prefix history, target operation, suffix); the evaluation first runs it \
           fault-free counting invocations per callback class during the target operation, then re-runs it once for EVERY \
           (class, k) with k up to that count (all k <= 64, geometric sample above) with the k-th invocation panicking; \
           non-trivial = at least one injected panic unwound out of the operation AND it fired during a growth into a new \
           allocation, under in-place-rehash conditions, or in a Clone/Drop/closure/Into/iterator callback",
    level: "fault_enumeration",
    cases_quick: 5000,
    cases_thorough: 40_000,
    strategy: c04_strategy,
    eval: eval_c04,
    nontrivial: c04_nontrivial,
    specs: hbv::specs::MAP_OPS,
    assumptions: &[
        "fault points are exhaustive per generated (state, operation), not over all states",
        "S::clone / A::clone are not injected (DESIGN 11.3)",
        "a second panic while unwinding is outside the property and never injected",
    ],
    prop_labels: &[],
};

// ---------------------------------------------------------------------------------------------
// C06

static C06_WEIGHTS: &[(u16, u32)] = &[
    (t::INSERT_UNIQUE, 20),
    (t::INSERT_DUP, 4),
    (t::FIND, 6),
    (t::FIND_MUT, 4),
    (t::FIND_ENTRY, 14),
    (t::ENTRY, 16),
    (t::RETAIN, 2),
    (t::EXTRACT_IF, 2),
    (t::DRAIN, 1),
    (t::CLEAR, 1),
    (t::RESERVE, 2),
    (t::TRY_RESERVE, 1),
    (t::SHRINK_TO_FIT, 2),
    (t::SHRINK_TO, 2),
    (t::GET_MANY_MUT, 3),
    (t::ITER_HASH, 6),
    (t::ITER, 2),
    (t::CLONE_SWAP, 1),
    (t::FILL_TO_CAPACITY, 4),
    (t::REMOVE_RUN, 5),
    (t::REMOVE_ALL_BUT, 2),
    (t::REHASH_SETUP, 7),
    (t::REMOVE_NTH, 4),
];

fn c06_strategy(tier: Tier) -> BoxedStrategy<Case> {
    use proptest::prelude::*;
    let tables = table_case_strategy(TableGen {
        prop: 6,
        weights: C06_WEIGHTS,
        max_ops: if tier == Tier::Quick { 100 } else { 300 },
        generic_pct: 20,
        plain_pct: 30,
    });
    // HashTable over the element-layout family (zero-sized, over-aligned): insert / remove / retain /
    // extract_if / iteration, and big tables (2^16 elements; several hundred elements under one hash)
    let lay = lay_case_strategy(LayGen { prop: 6, weights: C10_LAY_WEIGHTS, max_ops: 80, generic_pct: 20 })
        .prop_map(|mut c| {
            c.set("coll", 0);
            c
        })
        .boxed();
    let big = big_case_strategy(6)
        .prop_map(|mut c| {
            c.set("coll", 2);
            c
        })
        .boxed();
    union2(union2(tables, 12, lay, 1), BIG_ONE_IN, big, 1)
}

fn c06_nontrivial(c: &Case, o: &Outcome) -> bool {
    if c.kind == "big" || (c.kind == "lay" && o.steps >= 6) {
        return true;
    }
    o.labels & (L_REINSERT_VACANT | L_ENTRY_AT_FULL | L_ITER_HASH_LONG) != 0
}

pub static C06: PropDef = PropDef {
    id: "C06",
    rule: "cases = (hash plan over `nh` hash classes, id universe, capacity, back-end, element flavour, op list) with \
           caller-supplied hashes; exact duplicates (same id and hash) are generated; non-trivial = the case did a \
           remove-then-reinsert through the returned VacantEntry, OR called entry() at growth_left == 0, OR ran \
           iter_hash over a probe longer than one group",
    level: "exploration",
    cases_quick: 90_000,
    cases_thorough: 1_500_000,
    strategy: c06_strategy,
    eval: eval_plain,
    nontrivial: c06_nontrivial,
    specs: hbv::specs::TABLE_OPS,
    assumptions: &[
        "lookups use the hash the element was inserted with and closures that match on (id, hash)",
        "the multiset model (keyed by a unique id per inserted element) is correct",
    ],
    prop_labels: &[],
};

// ---------------------------------------------------------------------------------------------
// helpers for map-interpreter properties

/// one case in this many is a "big" case (more than 2^16 elements; a few milliseconds each)
const BIG_ONE_IN: u32 = 2500;

fn union2(a: BoxedStrategy<Case>, wa: u32, b: BoxedStrategy<Case>, wb: u32) -> BoxedStrategy<Case> {
    use proptest::strategy::Union;
    Union::new_weighted(vec![(wa, a), (wb, b)]).boxed()
}
use proptest::strategy::Strategy;

// ---------------------------------------------------------------------------------------------
// C03: every element and allocation released exactly once (tracked elements only)

static C03_MAP_WEIGHTS: &[(u16, u32)] = &[
    (m::INSERT, 18),
    (m::REMOVE, 10),
    (m::ENTRY, 6),
    (m::ENTRY_REF, 3),
    (m::EXTEND, 3),
    (m::CLEAR, 3),
    (m::RETAIN, 4),
    (m::EXTRACT_IF, 5),
    (m::DRAIN, 5),
    (m::INTO_ITER, 5),
    (m::SHRINK_TO_FIT, 3),
    (m::SHRINK_TO, 3),
    (m::CLONE_TO_OTHER, 3),
    (m::CLONE_FROM_OTHER, 6),
    (m::SWAP, 3),
    (m::DROP_RECREATE, 3),
    (m::FILL_TO_CAPACITY, 3),
    (m::FILL_EXACT, 3),
    (m::REMOVE_RUN, 4),
    (m::REHASH_SETUP, 3),
    (m::REBUILD, 2),
    (m::RAW_ENTRY, 2),
    (m::RUSTC_ENTRY, 2),
    (m::REMOVE_NTH, 3),
    (m::TRY_INSERT, 2),
];

static C03_TABLE_WEIGHTS: &[(u16, u32)] = &[
    (t::INSERT_UNIQUE, 18),
    (t::INSERT_DUP, 3),
    (t::FIND_ENTRY, 10),
    (t::ENTRY, 8),
    (t::RETAIN, 4),
    (t::EXTRACT_IF, 5),
    (t::DRAIN, 5),
    (t::ITER, 5),
    (t::CLEAR, 3),
    (t::SHRINK_TO_FIT, 3),
    (t::SHRINK_TO, 3),
    (t::CLONE_SWAP, 4),
    (t::FILL_TO_CAPACITY, 3),
    (t::REMOVE_RUN, 4),
    (t::REHASH_SETUP, 3),
    (t::REMOVE_NTH, 3),
];

static C03_SET_WEIGHTS: &[(u16, u32)] = &[
    (st::INSERT, 10),
    (st::INSERT_RANGE, 8),
    (st::REPLACE, 6),
    (st::REMOVE, 8),
    (st::GET_OR_INSERT, 3),
    (st::ENTRY, 5),
    (st::SWAP, 6),
    (st::ASSIGN, 10),
    (st::OPERATORS, 5),
    (st::RETAIN, 4),
    (st::EXTRACT_IF, 5),
    (st::DRAIN, 5),
    (st::ITER, 6),
    (st::CLEAR, 2),
    (st::SHRINK_TO_FIT, 3),
    (st::CLONE, 6),
    (st::FILL_TO_CAPACITY, 2),
    (st::REMOVE_RUN, 4),
    (st::REBUILD, 2),
];

fn c03_strategy(tier: Tier) -> BoxedStrategy<Case> {
    let n = if tier == Tier::Quick { 100 } else { 300 };
    union2(
        union2(
            map_case_strategy(MapGen { prop: 3, weights: C03_MAP_WEIGHTS, max_ops: n, generic_pct: 20, plain_pct: 0 }),
            3,
            table_case_strategy(TableGen { prop: 3, weights: C03_TABLE_WEIGHTS, max_ops: n, generic_pct: 20, plain_pct: 0 }),
            1,
        ),
        4,
        union2(
            set_case_strategy(SetGen { prop: 3, weights: C03_SET_WEIGHTS, max_ops: n, generic_pct: 20, plain_pct: 0 }),
            1,
            // tracked element layouts incl. the zero-sized type with drop glue
            {
                use proptest::prelude::*;
                lay_case_strategy(LayGen { prop: 3, weights: C02_WEIGHTS, max_ops: n, generic_pct: 20 })
                    .prop_map(|mut c| {
                        let l = c.h("layout");
                        c.set("layout", 14 + l % 6);
                        c
                    })
                    .boxed()
            },
            1,
        ),
        2,
    )
}

fn c03_nontrivial(_c: &Case, o: &Outcome) -> bool {
    o.labels & (L_DRAIN_CUT | L_INTOITER_CUT | L_EXTRACT_CUT | L_CLONE_FROM_DIFF | L_REHASH_IN_PLACE) != 0
}

pub static C03: PropDef = PropDef {
    id: "C03",
    rule: "histories over HashMap, HashTable, HashSet and (one sixth) the layout programs of C02 restricted to the six tracked \
           element layouts incl. a zero-sized type with drop glue, all with tracked elements (unique serial, magic word, drop \
           glue): removal, overwrite, clear, retain, extract_if, drain, into_iter/into_keys/into_values, shrink, \
           clone_from into occupied targets, drop; every owning iterator is cut at a generated point and dropped; \
           non-trivial = an owning iterator / drain / extract_if was cut strictly inside, OR clone_from hit a target \
           with different bucket count or tombstones, OR an in-place rehash moved tracked elements",
    level: "exploration",
    cases_quick: 60_000,
    cases_thorough: 1_500_000,
    strategy: c03_strategy,
    eval: eval_plain,
    nontrivial: c03_nontrivial,
    specs: hbv::specs::MAP_OPS,
    assumptions: &[
        "element life cycle is observed through Drop of the tracked types; plain (no drop glue) types are not part of this check",
        "allocations are observed through the checking allocator handed to *_in constructors",
    ],
    prop_labels: &[],
};

// ---------------------------------------------------------------------------------------------
// C05: inconsistent Hash / Eq

static C05_WEIGHTS: &[(u16, u32)] = &[
    (m::INSERT, 20),
    (m::TRY_INSERT, 3),
    (m::GET, 6),
    (m::GET_MUT, 3),
    (m::REMOVE, 12),
    (m::ENTRY, 8),
    (m::ENTRY_REF, 5),
    (m::EXTEND, 4),
    (m::REBUILD, 1),
    (m::CLEAR, 1),
    (m::RESERVE, 3),
    (m::SHRINK_TO_FIT, 3),
    (m::SHRINK_TO, 2),
    (m::RETAIN, 3),
    (m::FILL_EXACT, 4),
    (m::FILL_TO_CAPACITY, 3),
    (m::REMOVE_RUN, 4),
    (m::REMOVE_ALL_BUT, 2),
    (m::CHURN, 3),
    (m::REHASH_SETUP, 3),
    (m::ITER, 3),
    (m::DRAIN, 3),
    (m::EXTRACT_IF, 2),
    (m::INTO_ITER, 2),
    (m::CLONE_TO_OTHER, 2),
    (m::CLONE_FROM_OTHER, 2),
    (m::GET_MANY_MUT, 3),
    (m::RUSTC_ENTRY, 3),
    (m::REMOVE_NTH, 3),
];

static C05_SET_WEIGHTS: &[(u16, u32)] = &[
    (st::INSERT, 18),
    (st::INSERT_RANGE, 5),
    (st::REPLACE, 5),
    (st::REMOVE, 10),
    (st::GET_OR_INSERT, 5),
    (st::GET_OR_INSERT_WITH, 4),
    (st::GET, 3),
    (st::ENTRY, 6),
    (st::SWAP, 6),
    (st::ALGEBRA, 6),
    (st::PREDICATES, 3),
    (st::OPERATORS, 5),
    (st::ASSIGN, 10),
    (st::EXTEND, 4),
    (st::RETAIN, 2),
    (st::EXTRACT_IF, 2),
    (st::DRAIN, 2),
    (st::CLEAR, 1),
    (st::SHRINK_TO_FIT, 3),
    (st::RESERVE, 3),
    (st::ITER, 2),
    (st::FILL_TO_CAPACITY, 3),
    (st::REMOVE_RUN, 4),
    (st::CLONE, 3),
    (st::REBUILD, 1),
];

static C05_TABLE_WEIGHTS: &[(u16, u32)] = &[
    (t::INSERT_UNIQUE, 18),
    (t::INSERT_DUP, 2),
    (t::FIND, 4),
    (t::FIND_MUT, 2),
    (t::FIND_ENTRY, 10),
    (t::ENTRY, 12),
    (t::RETAIN, 2),
    (t::EXTRACT_IF, 2),
    (t::DRAIN, 2),
    (t::CLEAR, 1),
    (t::RESERVE, 4),
    (t::SHRINK_TO_FIT, 3),
    (t::SHRINK_TO, 2),
    (t::GET_MANY_MUT, 4),
    (t::ITER_HASH, 3),
    (t::ITER, 2),
    (t::CLONE_SWAP, 2),
    (t::FILL_TO_CAPACITY, 3),
    (t::REMOVE_RUN, 4),
    (t::REHASH_SETUP, 3),
    (t::REMOVE_NTH, 4),
];

fn c05_strategy(tier: Tier) -> BoxedStrategy<Case> {
    use proptest::prelude::*;
    let n = if tier == Tier::Quick { 100 } else { 300 };
    (
        // debugging aid: HBV_C05_ONLY=set|table makes almost every program one of that kind
        {
            let only = std::env::var("HBV_C05_ONLY").unwrap_or_default();
            let (wm, ws, wt) = match only.as_str() {
                "set" => (1, 200, 1),
                "table" => (1, 1, 200),
                _ => (6, 2, 1),
            };
            union2(
                union2(
                    map_case_strategy(MapGen { prop: 5, weights: C05_WEIGHTS, max_ops: n, generic_pct: 20, plain_pct: 30 }),
                    wm,
                    set_case_strategy(SetGen { prop: 5, weights: C05_SET_WEIGHTS, max_ops: n, generic_pct: 20, plain_pct: 30 }),
                    ws,
                ),
                wm + ws,
                table_case_strategy(TableGen { prop: 5, weights: C05_TABLE_WEIGHTS, max_ops: n, generic_pct: 20, plain_pct: 30 }),
                wt,
            )
        },
        prop_oneof![3 => Just(1u64), 2 => Just(2u64), 2 => Just(3u64), 2 => Just(4u64), 2 => Just(5u64), 2 => Just(6u64), 2 => Just(7u64), 2 => Just(8u64)],
        1u64..48,
        0u64..1000,
        0u64..2,
    )
        .prop_map(|(mut c, mode, tape_len, tape_seed, small)| {
            c.set("chaos", mode);
            c.set("tape_len", tape_len);
            c.set("tape_seed", tape_seed);
            c.set("tape_small", if mode == 8 { 1 } else { small });
            c
        })
        .boxed()
}

fn c05_nontrivial(_c: &Case, o: &Outcome) -> bool {
    o.labels & (L_RESIZE_UP | L_RESIZE_DOWN | L_REHASH_IN_PLACE) != 0 && o.steps >= 4
}

pub static C05: PropDef = PropDef {
    id: "C05",
    rule: "histories over the C01 alphabet (also: two-HashSet programs with algebra / operators / assigning operators, and \
           HashTable programs whose hash and eq closures take their answers from the tapes) with answer tapes in the case \
           (hash tape and eq tape consumed cyclically): \
           modes = fresh answer every call / hash depends on call parity / equal keys with different hashes / \
           always-equal / never-equal / non-transitive equality / eq tape only / hash tape from 4 values; only the \
           safety subset is judged (structure, allocator, element ledger, len == yielded count, termination); \
           non-trivial = a growth, shrink or in-place rehash happened while answers were inconsistent",
    level: "exploration",
    cases_quick: 60_000,
    cases_thorough: 1_500_000,
    strategy: c05_strategy,
    eval: eval_plain,
    nontrivial: c05_nontrivial,
    specs: hbv::specs::MAP_OPS,
    assumptions: &[
        "answer tapes are finite and periodic; an adversary adapting to the table layout is only approximated",
        "lookup results are deliberately unconstrained; the model is re-synchronised to the observed contents after every step",
    ],
    prop_labels: &[],
};

// ---------------------------------------------------------------------------------------------
// C09: iterators

static C09_MAP_WEIGHTS: &[(u16, u32)] = &[
    (m::INSERT, 14),
    (m::REMOVE, 6),
    (m::ITER, 30),
    (m::DRAIN, 6),
    (m::INTO_ITER, 8),
    (m::FILL_EXACT, 4),
    (m::FILL_TO_CAPACITY, 3),
    (m::REMOVE_RUN, 4),
    (m::REHASH_SETUP, 1),
    (m::EXTEND, 3),
    (m::CLEAR, 1),
    (m::SHRINK_TO_FIT, 2),
    (m::RESERVE, 2),
    (m::REMOVE_NTH, 3),
];
static C09_TABLE_WEIGHTS: &[(u16, u32)] = &[
    (t::INSERT_UNIQUE, 14),
    (t::INSERT_DUP, 3),
    (t::ITER, 30),
    (t::DRAIN, 6),
    (t::ITER_HASH, 5),
    (t::FILL_TO_CAPACITY, 3),
    (t::REMOVE_RUN, 4),
    (t::REMOVE_NTH, 4),
    (t::CLEAR, 1),
    (t::SHRINK_TO_FIT, 2),
    (t::RESERVE, 2),
];

static C09_SET_WEIGHTS: &[(u16, u32)] = &[
    (st::INSERT, 14),
    (st::INSERT_RANGE, 5),
    (st::REMOVE, 6),
    (st::ITER, 30),
    (st::DRAIN, 8),
    (st::ALGEBRA, 6),
    (st::SWAP, 3),
    (st::FILL_TO_CAPACITY, 3),
    (st::REMOVE_RUN, 5),
    (st::RESERVE, 2),
    (st::SHRINK_TO_FIT, 2),
    (st::CLEAR, 1),
];

static C09_LAY_WEIGHTS: &[(u16, u32)] = &[(ly::INSERT, 16), (ly::REMOVE, 5), (ly::CLONE_SWAP, 16), (ly::LIFE, 16), (ly::FILL_TO_CAPACITY, 3), (ly::REMOVE_RUN, 4), (ly::CLEAR, 1), (ly::GET, 2)];

fn c09_strategy(tier: Tier) -> BoxedStrategy<Case> {
    let n = if tier == Tier::Quick { 80 } else { 250 };
    union2(
        union2(
            map_case_strategy(MapGen { prop: 9, weights: C09_MAP_WEIGHTS, max_ops: n, generic_pct: 25, plain_pct: 40 }),
            2,
            table_case_strategy(TableGen { prop: 9, weights: C09_TABLE_WEIGHTS, max_ops: n, generic_pct: 25, plain_pct: 40 }),
            1,
        ),
        4,
        union2(
            union2(set_case_strategy(SetGen { prop: 9, weights: C09_SET_WEIGHTS, max_ops: n, generic_pct: 25, plain_pct: 40 }), BIG_ONE_IN / 5, big_case_strategy(9), 1),
            2,
            // element layouts (zero-sized, over-aligned, large): yields counted by next() for iter, into_iter,
            // into_keys, into_values and drain; iterators advanced and dropped or leaked
            lay_case_strategy(LayGen { prop: 9, weights: C09_LAY_WEIGHTS, max_ops: n, generic_pct: 25 }),
            1,
        ),
        1,
    )
}

fn c09_nontrivial(c: &Case, o: &Outcome) -> bool {
    c.kind == "big" || (c.kind == "lay" && o.steps >= 6) || o.labels & (L_ITER_CUT | L_INTOITER_CUT | L_DRAIN_CUT) != 0
}

pub static C09: PropDef = PropDef {
    id: "C09",
    rule: "state histories x iterator kind (map: iter, iter_mut, keys, values, values_mut, into_iter, into_keys, \
           into_values, drain; table: iter, iter_mut, into_iter, drain; set: iter, into_iter, drain, algebra iterators) x switch-over prefix p x continuation (next \
           to exhaustion / fold / for_each / clone-and-run-both / count / drop); size_hint and len checked at every \
           step; non-trivial = 0 < p < len with continuation fold or clone, or an owning iterator cut strictly inside",
    level: "exploration",
    cases_quick: 60_000,
    cases_thorough: 1_500_000,
    strategy: c09_strategy,
    eval: eval_plain,
    nontrivial: c09_nontrivial,
    specs: hbv::specs::MAP_OPS,
    assumptions: &["iteration order is unspecified: yields are compared as multisets"],
    prop_labels: &[],
};

// ---------------------------------------------------------------------------------------------
// C10: retain / extract_if / drain

static C10_MAP_WEIGHTS: &[(u16, u32)] = &[
    (m::INSERT, 14),
    (m::REMOVE, 4),
    (m::RETAIN, 14),
    (m::EXTRACT_IF, 16),
    (m::DRAIN, 10),
    (m::FILL_EXACT, 5),
    (m::FILL_TO_CAPACITY, 3),
    (m::REMOVE_RUN, 3),
    (m::EXTEND, 3),
    (m::GET, 2),
    (m::REMOVE_NTH, 2),
];
static C10_TABLE_WEIGHTS: &[(u16, u32)] = &[
    (t::INSERT_UNIQUE, 14),
    (t::INSERT_DUP, 3),
    (t::RETAIN, 14),
    (t::EXTRACT_IF, 16),
    (t::DRAIN, 10),
    (t::FILL_TO_CAPACITY, 4),
    (t::REMOVE_RUN, 3),
    (t::FIND, 2),
    (t::REMOVE_NTH, 2),
];

static C10_SET_WEIGHTS: &[(u16, u32)] = &[
    (st::INSERT, 14),
    (st::INSERT_RANGE, 5),
    (st::REMOVE, 4),
    (st::RETAIN, 14),
    (st::EXTRACT_IF, 16),
    (st::DRAIN, 10),
    (st::FILL_TO_CAPACITY, 3),
    (st::REMOVE_RUN, 3),
    (st::EXTEND, 3),
    (st::GET, 2),
    (st::SWAP, 2),
];

static C10_LAY_WEIGHTS: &[(u16, u32)] = &[(ly::INSERT, 16), (ly::REMOVE, 4), (ly::RETAIN, 24), (ly::LIFE, 8), (ly::FILL_TO_CAPACITY, 3), (ly::REMOVE_RUN, 3), (ly::GET, 2), (ly::CLEAR, 1)];

fn c10_strategy(tier: Tier) -> BoxedStrategy<Case> {
    let n = if tier == Tier::Quick { 80 } else { 250 };
    union2(
        union2(
            map_case_strategy(MapGen { prop: 10, weights: C10_MAP_WEIGHTS, max_ops: n, generic_pct: 20, plain_pct: 30 }),
            2,
            table_case_strategy(TableGen { prop: 10, weights: C10_TABLE_WEIGHTS, max_ops: n, generic_pct: 20, plain_pct: 30 }),
            1,
        ),
        4,
        union2(
            union2(set_case_strategy(SetGen { prop: 10, weights: C10_SET_WEIGHTS, max_ops: n, generic_pct: 20, plain_pct: 30 }), BIG_ONE_IN / 5, big_case_strategy(10), 1),
            2,
            // element layouts (zero-sized, over-aligned ...): retain by id, extract_if with answers by call index
            lay_case_strategy(LayGen { prop: 10, weights: C10_LAY_WEIGHTS, max_ops: n, generic_pct: 20 }),
            1,
        ),
        1,
    )
}

fn c10_nontrivial(c: &Case, o: &Outcome) -> bool {
    c.kind == "big" || (c.kind == "lay" && o.steps >= 6) || o.labels & (L_EXTRACT_CUT | L_DRAIN_CUT) != 0
}

pub static C10: PropDef = PropDef {
    id: "C10",
    rule: "state histories x predicate subsets (salted per-mille threshold on the key id) x mutation by the predicate \
           x early-drop point, for HashMap (8/15), HashTable (4/15) and HashSet (1/5); non-trivial = extract_if with a subset neither \
           empty nor full dropped strictly inside its selection, or drain dropped strictly inside (drains are also \
           consumed through fold / for_each / count); one program in fifteen runs on the element-layout family (zero-sized, \
           over-aligned, large) with extract_if answers that follow a bit pattern by call index; one case in 12 500 holds \
           65 536 .. 136 000 elements (predicate call counts of retain / extract_if, drain().count())",
    level: "exploration",
    cases_quick: 60_000,
    cases_thorough: 1_500_000,
    strategy: c10_strategy,
    eval: eval_plain,
    nontrivial: c10_nontrivial,
    specs: hbv::specs::MAP_OPS,
    assumptions: &["the predicate is a salted threshold on the element id, so its answers do not depend on visiting order"],
    prop_labels: &[],
};

// ---------------------------------------------------------------------------------------------
// C11: clone / clone_from / ==

static C11_WEIGHTS: &[(u16, u32)] = &[
    (m::INSERT, 16),
    (m::REMOVE, 8),
    (m::SWAP, 12),
    (m::CLONE_TO_OTHER, 8),
    (m::CLONE_FROM_OTHER, 14),
    (m::EQ_CHECK, 14),
    (m::MIRROR_TO_OTHER, 6),
    (m::FILL_EXACT, 4),
    (m::FILL_TO_CAPACITY, 3),
    (m::REMOVE_RUN, 4),
    (m::REHASH_SETUP, 2),
    (m::EXTEND, 4),
    (m::CLEAR, 2),
    (m::SHRINK_TO_FIT, 2),
    (m::RESERVE, 2),
    (m::GET_MUT, 3),
    (m::DROP_RECREATE, 2),
    (m::REMOVE_ALL_BUT, 2),
];

static C11_SET_WEIGHTS: &[(u16, u32)] = &[
    (st::INSERT, 14),
    (st::INSERT_RANGE, 4),
    (st::REMOVE, 8),
    (st::SWAP, 12),
    (st::CLONE, 20),
    (st::PREDICATES, 12),
    (st::MIRROR, 8),
    (st::FILL_TO_CAPACITY, 3),
    (st::REMOVE_RUN, 5),
    (st::EXTEND, 3),
    (st::CLEAR, 2),
    (st::SHRINK_TO_FIT, 2),
    (st::RESERVE, 2),
    (st::ASSIGN, 3),
    (st::REBUILD, 1),
];

static C11_TABLE_WEIGHTS: &[(u16, u32)] = &[
    (t::INSERT_UNIQUE, 14),
    (t::INSERT_DUP, 2),
    (t::FIND, 3),
    (t::FIND_ENTRY, 8),
    (t::CLONE_SWAP, 16),
    (t::RETAIN, 2),
    (t::REMOVE_RUN, 5),
    (t::FILL_TO_CAPACITY, 3),
    (t::REHASH_SETUP, 2),
    (t::CLEAR, 2),
    (t::SHRINK_TO_FIT, 2),
    (t::RESERVE, 2),
    (t::REMOVE_NTH, 4),
];

static C11_LAY_WEIGHTS: &[(u16, u32)] = &[
    (ly::INSERT, 16),
    (ly::REMOVE, 8),
    (ly::GET, 2),
    (ly::CLONE_SWAP, 20),
    (ly::FILL_TO_CAPACITY, 3),
    (ly::REMOVE_RUN, 5),
    (ly::RETAIN, 2),
    (ly::CLEAR, 1),
    (ly::SHRINK_TO_FIT, 2),
    (ly::RESERVE, 2),
    (ly::WITH_CAPACITY, 1),
];

fn c11_strategy(tier: Tier) -> BoxedStrategy<Case> {
    use proptest::prelude::*;
    let n = if tier == Tier::Quick { 100 } else { 300 };
    // element layouts with an observable Clone / Drop (tracked, incl. the zero-sized one) in all three
    // collection kinds
    let lay = lay_case_strategy(LayGen { prop: 11, weights: C11_LAY_WEIGHTS, max_ops: n, generic_pct: 20 })
        .prop_map(|mut c| {
            let l = c.h("layout");
            c.set("layout", 14 + l % 6);
            c
        })
        .boxed();
    let base = c11_base_strategy(n);
    union2(base, 8, lay, 1)
}

fn c11_base_strategy(n: usize) -> BoxedStrategy<Case> {
    union2(
        union2(
            map_case_strategy(MapGen { prop: 11, weights: C11_WEIGHTS, max_ops: n, generic_pct: 20, plain_pct: 20 }),
            4,
            set_case_strategy(SetGen { prop: 11, weights: C11_SET_WEIGHTS, max_ops: n, generic_pct: 20, plain_pct: 20 }),
            1,
        ),
        10,
        table_case_strategy(TableGen { prop: 11, weights: C11_TABLE_WEIGHTS, max_ops: n, generic_pct: 20, plain_pct: 20 }),
        1,
    )
}

fn c11_nontrivial(_c: &Case, o: &Outcome) -> bool {
    o.labels & (L_CLONE_FROM_DIFF | L_EQ_DIFF_HISTORY) != 0
}

pub static C11: PropDef = PropDef {
    id: "C11",
    rule: "two map slots (also: two HashSets; one HashTable with clone / clone_from swapped in) with independent \
           histories, capacities and differently seeded hash plans; swap / clone / \
           clone_from / == in both directions, then both keep being mutated and compared with their own models; \
           non-trivial = clone_from into a target with a different bucket count or with tombstones, or == evaluated on \
           equal non-empty contents held under different hash plans",
    level: "exploration",
    cases_quick: 60_000,
    cases_thorough: 1_500_000,
    strategy: c11_strategy,
    eval: eval_plain,
    nontrivial: c11_nontrivial,
    specs: hbv::specs::MAP_OPS,
    assumptions: &["HashTable has no ==; its clone is compared element-wise through iteration"],
    prop_labels: &[],
};

// ---------------------------------------------------------------------------------------------
// C13: churn is reclaimed; termination

// clone_to_other + swap = "snapshot and keep churning on the snapshot": a clone reserves nothing, so the
// bound applies to it as well
static C13_WEIGHTS: &[(u16, u32)] =
    &[
        (m::CAPPED_CHURN, 30),
        (m::GET, 3),
        (m::GET_ABSENT, 4),
        (m::REMOVE, 3),
        (m::ENTRY, 2),
        (m::REMOVE_NTH, 2),
        (m::CLONE_TO_OTHER, 2),
        (m::SWAP, 2),
        // removal in bulk is removal too: none of these reserves capacity
        (m::REMOVE_ALL_BUT, 2),
        (m::DRAIN, 2),
        (m::CLEAR, 1),
        (m::RETAIN, 1),
    ];

// HashTable programs for the termination half of C13 (find / find_entry / entry / iter_hash of absent hashes in
// tombstone-saturated tables); the allocation bound is only evaluated on the HashMap programs
static C13_TABLE_WEIGHTS: &[(u16, u32)] = &[
    (t::INSERT_UNIQUE, 16),
    (t::FIND, 6),
    (t::FIND_ENTRY, 12),
    (t::ENTRY, 8),
    (t::ITER_HASH, 10),
    (t::REMOVE_NTH, 10),
    (t::REMOVE_RUN, 8),
    (t::REMOVE_ALL_BUT, 3),
    (t::REHASH_SETUP, 4),
    (t::FILL_TO_CAPACITY, 4),
    (t::DRAIN, 2),
    (t::CLEAR, 1),
    (t::RETAIN, 2),
];

fn c13_strategy(tier: Tier) -> BoxedStrategy<Case> {
    use proptest::prelude::*;
    let maps = (
        map_case_strategy(MapGen {
            prop: 13,
            weights: C13_WEIGHTS,
            max_ops: if tier == Tier::Quick { 120 } else { 900 },
            generic_pct: 20,
            plain_pct: 50,
        }),
        // a third of the caps are exactly a table's capacity (fill to the last free slot)
        prop_oneof![2 => 1u64..8, 3 => 8u64..40, 2 => 40u64..120, 1 => 120u64..300, 4 => proptest::sample::select(vec![3u64, 7, 14, 28, 56, 112, 224])],
    )
        .prop_map(|(mut c, live_cap)| {
            c.set("c13", 1);
            c.set("cap", 0);
            c.set("b_cap", 0);
            c.set("live_cap", live_cap);
            c.set("sweep", 64);
            c
        })
        .boxed();
    let tables = table_case_strategy(TableGen { prop: 13, weights: C13_TABLE_WEIGHTS, max_ops: if tier == Tier::Quick { 120 } else { 600 }, generic_pct: 20, plain_pct: 50 })
        .prop_map(|mut c| {
            c.set("cap", 0);
            c
        })
        .boxed();
    union2(maps, 5, tables, 1)
}

fn c13_nontrivial(c: &Case, o: &Outcome) -> bool {
    if c.kind == "table" {
        return o.steps >= 20 && o.labels & (L_REHASH_IN_PLACE | L_TOMBSTONE_REUSE) != 0;
    }
    let basic = o.counters.iter().find(|x| x.0 == "basic_ops").map_or(0, |x| x.1);
    basic >= 20 * c.h("live_cap") && o.labels & (L_REHASH_IN_PLACE | L_TOMBSTONE_REUSE) != 0
}

pub static C13: PropDef = PropDef {
    id: "C13",
    rule: "long insert/remove/lookup histories (plain and entry forms, never reserve/extend/with_capacity) with the \
           live count capped at n in 1..300 (a third of the caps exactly a table capacity) and removal patterns FIFO / \
           LIFO / random / clustered-by-bucket / alternating / fill-then-remove-everything, bulk removals (remove_all_but, \
           drain, clear, retain), clone-and-continue, all hash plans, an absent-key lookup after every removal; one program \
           in six is a HashTable program (find / find_entry / entry / iter_hash of absent hashes on tombstone-saturated \
           tables, termination only); oracle: allocation_size() <= \
           allocation_size of with_capacity(4 * peak live) at every step, an insert into a table at most half full of live \
           elements does not enlarge the allocation, an EMPTY slot always exists and growth_left \
           cannot consume the last one, per-operation watchdog; non-trivial = at least 20 x n basic operations and \
           at least one in-place rehash or tombstone reuse",
    level: "exploration",
    cases_quick: 16_000,
    cases_thorough: 300_000,
    strategy: c13_strategy,
    eval: eval_plain,
    nontrivial: c13_nontrivial,
    specs: hbv::specs::MAP_OPS,
    assumptions: &[
        "the constant 4 is a chosen threshold (measured maximum is reported as max_c13_ratio_permille)",
        "termination is judged through the structural invariant plus a watchdog: evidence, not proof",
    ],
    prop_labels: &[],
};

// ---------------------------------------------------------------------------------------------
// C14: entry-style APIs

static C14_WEIGHTS: &[(u16, u32)] = &[
    (m::ENTRY, 16),
    (m::ENTRY_REF, 12),
    (m::RAW_ENTRY, 16),
    (m::RAW_ENTRY_RO, 4),
    (m::RUSTC_ENTRY, 16),
    (m::INSERT, 6),
    (m::REMOVE, 5),
    (m::FILL_TO_CAPACITY, 8),
    (m::FILL_EXACT, 3),
    (m::REMOVE_RUN, 5),
    (m::REHASH_SETUP, 4),
    (m::REMOVE_ALL_BUT, 2),
    (m::SHRINK_TO_FIT, 3),
    (m::CLEAR, 1),
    (m::DROP_RECREATE, 2),
    (m::REMOVE_NTH, 3),
];

static C14_SET_WEIGHTS: &[(u16, u32)] = &[
    (st::ENTRY, 30),
    (st::INSERT, 8),
    (st::REMOVE, 6),
    (st::FILL_TO_CAPACITY, 10),
    (st::REMOVE_RUN, 6),
    (st::SHRINK_TO_FIT, 3),
    (st::GET, 2),
    (st::CLEAR, 1),
    (st::SWAP, 2),
];

// HashMap<E, E> / HashSet<E> over the element-layout family (zero-sized, over-aligned, 400-byte pairs): the life-cycle
// operation creates entry / entry_ref / raw entry / rustc_entry objects for present and absent keys at every load
static C14_LAY_WEIGHTS: &[(u16, u32)] = &[(ly::INSERT, 18), (ly::REMOVE, 8), (ly::LIFE, 24), (ly::GET, 6), (ly::FILL_TO_CAPACITY, 5), (ly::REMOVE_RUN, 6), (ly::RETAIN, 2)];

fn c14_strategy(tier: Tier) -> BoxedStrategy<Case> {
    use proptest::prelude::*;
    let n = if tier == Tier::Quick { 100 } else { 300 };
    let lay = lay_case_strategy(LayGen { prop: 14, weights: C14_LAY_WEIGHTS, max_ops: n, generic_pct: 20 })
        .prop_map(|mut c| {
            if c.h("coll") == 0 {
                c.set("coll", 2);
            }
            c
        })
        .boxed();
    union2(
        union2(
            map_case_strategy(MapGen { prop: 14, weights: C14_WEIGHTS, max_ops: n, generic_pct: 20, plain_pct: 30 }),
            5,
            set_case_strategy(SetGen { prop: 14, weights: C14_SET_WEIGHTS, max_ops: n, generic_pct: 20, plain_pct: 30 }),
            1,
        ),
        10,
        lay,
        1,
    )
}

fn c14_nontrivial(c: &Case, o: &Outcome) -> bool {
    if c.kind == "lay" {
        return o.steps >= 6;
    }
    o.labels & (L_ENTRY_AT_FULL | L_PROBE_TOMB) != 0
}

pub static C14: PropDef = PropDef {
    id: "C14",
    rule: "states biased to len()==capacity(), tombstone-saturated and the unallocated singleton x key present/absent \
           x API (entry, entry_ref, raw_entry, raw_entry_mut via from_key / from_key_hashed_nocheck / from_hash, \
           rustc_entry; one sixth of the cases HashSet::entry) x method chains; the chain's effect and return values are \
           compared with the equivalent plain get/insert/remove on the model; non-trivial = an entry was created at \
           growth_left == 0 or the key's probe window held a tombstone.",
    level: "exploration",
    cases_quick: 60_000,
    cases_thorough: 1_500_000,
    strategy: c14_strategy,
    eval: eval_plain,
    nontrivial: c14_nontrivial,
    specs: hbv::specs::MAP_OPS,
    assumptions: &["raw-entry hashes are computed by the oracle with the same plan the map's BuildHasher uses (lawful use)"],
    prop_labels: &[],
};

// ---------------------------------------------------------------------------------------------
// C15: get_many_mut

static C15_MAP_WEIGHTS: &[(u16, u32)] = &[
    (m::GET_MANY_MUT, 40),
    (m::INSERT, 14),
    (m::REMOVE, 6),
    (m::FILL_EXACT, 3),
    (m::REMOVE_RUN, 3),
    (m::GET, 2),
    (m::REHASH_SETUP, 1),
];
static C15_TABLE_WEIGHTS: &[(u16, u32)] = &[
    (t::GET_MANY_MUT, 40),
    (t::INSERT_UNIQUE, 14),
    (t::INSERT_DUP, 6),
    (t::FIND_ENTRY, 5),
    (t::FILL_TO_CAPACITY, 2),
    (t::REMOVE_RUN, 3),
    (t::REMOVE_NTH, 3),
];

// every element layout (zero-sized, over-aligned, large): the `get` operation of the layout interpreter
// calls get_many_mut with one request and with one present plus one absent request (map and table)
static C15_LAY_WEIGHTS: &[(u16, u32)] = &[(ly::INSERT, 14), (ly::REMOVE, 6), (ly::GET, 30), (ly::FILL_TO_CAPACITY, 2), (ly::REMOVE_RUN, 3), (ly::CLEAR, 1), (ly::CLONE_SWAP, 1)];

fn c15_strategy(tier: Tier) -> BoxedStrategy<Case> {
    let n = if tier == Tier::Quick { 60 } else { 200 };
    union2(
        union2(
            map_case_strategy(MapGen { prop: 15, weights: C15_MAP_WEIGHTS, max_ops: n, generic_pct: 20, plain_pct: 30 }),
            2,
            table_case_strategy(TableGen { prop: 15, weights: C15_TABLE_WEIGHTS, max_ops: n, generic_pct: 20, plain_pct: 30 }),
            1,
        ),
        6,
        lay_case_strategy(LayGen { prop: 15, weights: C15_LAY_WEIGHTS, max_ops: n, generic_pct: 20 }),
        1,
    )
}

fn c15_nontrivial(c: &Case, o: &Outcome) -> bool {
    if c.kind == "lay" {
        return c.h("coll") != 1 && o.steps >= 4;
    }
    o.labels & L_MANY_MUT != 0
}

pub static C15: PropDef = PropDef {
    id: "C15",
    rule: "states x N in 0..=4 x key tuples with duplicates, absent and colliding keys (HashMap get_many_mut and \
           get_many_key_value_mut; HashTable get_many_mut with exact and id-only equality closures that can match \
           several entries), N also 9 and 12; one HashMap call in three passes unsized equivalent keys that are all cut from \
           one buffer and so start at one address; one program in seven runs on the element-layout family (zero-sized, \
           over-aligned, large elements) with N = 1 and N = 2 (one present, one absent); non-trivial = N >= 2 with at \
           least two present keys, or a tuple naming the same present entry twice",
    level: "exploration",
    cases_quick: 60_000,
    cases_thorough: 1_500_000,
    strategy: c15_strategy,
    eval: eval_plain,
    nontrivial: c15_nontrivial,
    specs: hbv::specs::MAP_OPS,
    assumptions: &["zero-sized elements are excluded (DESIGN 11.1: all ZST buckets share one dangling address)"],
    prop_labels: &[],
};

// ---------------------------------------------------------------------------------------------
// C07: HashSet algebra

static C07_WEIGHTS: &[(u16, u32)] = &[
    (st::INSERT, 12),
    (st::INSERT_RANGE, 8),
    (st::REPLACE, 5),
    (st::REMOVE, 8),
    (st::GET_OR_INSERT, 4),
    (st::GET_OR_INSERT_WITH, 6),
    (st::GET, 3),
    (st::ENTRY, 6),
    (st::SWAP, 12),
    (st::ALGEBRA, 16),
    (st::PREDICATES, 8),
    (st::OPERATORS, 8),
    (st::ASSIGN, 10),
    (st::EXTEND, 3),
    (st::RETAIN, 2),
    (st::EXTRACT_IF, 2),
    (st::DRAIN, 1),
    (st::CLEAR, 1),
    (st::SHRINK_TO_FIT, 2),
    (st::RESERVE, 1),
    (st::ITER, 3),
    (st::FILL_TO_CAPACITY, 2),
    (st::REMOVE_RUN, 4),
    (st::CLONE, 2),
    (st::MIRROR, 4),
    (st::REBUILD, 1),
];

fn c07_strategy(tier: Tier) -> BoxedStrategy<Case> {
    set_case_strategy(SetGen {
        prop: 7,
        weights: C07_WEIGHTS,
        max_ops: if tier == Tier::Quick { 100 } else { 300 },
        generic_pct: 20,
        plain_pct: 30,
    })
}

fn c07_nontrivial(_c: &Case, o: &Outcome) -> bool {
    o.labels & L_X2 != 0
}

pub static C07: PropDef = PropDef {
    id: "C07",
    rule: "two HashSets with independent histories, capacities, tombstones and differently seeded hash plans over \
           one universe; union / intersection / difference / symmetric_difference in both directions (next, fold, \
           clone half-way, size_hint bounds at every step), predicates and == in both directions, operator and \
           assigning forms, insert/replace/take/get_or_insert/get_or_insert_with (incl. a closure returning a \
           non-equivalent value, which must panic)/remove/entry; non-trivial = a binary operation was evaluated on \
           two non-empty sets of which neither is a subset of the other",
    level: "exploration",
    cases_quick: 60_000,
    cases_thorough: 1_500_000,
    strategy: c07_strategy,
    eval: eval_plain,
    nontrivial: c07_nontrivial,
    specs: hbv::specs::SET_OPS,
    assumptions: &["mathematical sets are std BTreeSet<u32> over element ids; iterator outputs are compared as sorted multisets so duplicates are visible"],
    prop_labels: &[(L_X1, "get_or_insert_with_refused_or_sub_assign_remove_loop"), (L_X2, "binary_op_on_incomparable_non_empty_sets"), (L_X3, "binary_op_on_equal_sized_sets")],
};

// ---------------------------------------------------------------------------------------------
// C02: memory safety over layouts and object life cycles

static C02_WEIGHTS: &[(u16, u32)] = &[
    (ly::INSERT, 22),
    (ly::REMOVE, 10),
    (ly::GET, 6),
    (ly::LIFE, 30),
    (ly::RESERVE, 3),
    (ly::SHRINK_TO_FIT, 3),
    (ly::SHRINK_TO, 2),
    (ly::CLEAR, 1),
    (ly::CLONE_SWAP, 4),
    (ly::FILL_TO_CAPACITY, 4),
    (ly::REMOVE_RUN, 5),
    (ly::RETAIN, 3),
    (ly::WITH_CAPACITY, 2),
    (ly::TRY_RESERVE, 1),
];

fn c02_strategy(tier: Tier) -> BoxedStrategy<Case> {
    let n = if tier == Tier::Quick { 80 } else { 250 };
    union2(
        union2(
            lay_case_strategy(LayGen { prop: 2, weights: C02_WEIGHTS, max_ops: n, generic_pct: 25 }),
            3,
            map_case_strategy(MapGen { prop: 2, weights: C04_WEIGHTS, max_ops: n, generic_pct: 25, plain_pct: 30 }),
            1,
        ),
        7,
        // multi-key mutable borrows: two `&mut` to one entry are memory unsafety (the C15 programs, one case in eight)
        union2(
            map_case_strategy(MapGen { prop: 2, weights: C15_MAP_WEIGHTS, max_ops: n.min(60), generic_pct: 25, plain_pct: 30 }),
            2,
            table_case_strategy(TableGen { prop: 2, weights: C15_TABLE_WEIGHTS, max_ops: n.min(60), generic_pct: 25, plain_pct: 30 }),
            1,
        ),
        1,
    )
}

fn c02_nontrivial(c: &Case, o: &Outcome) -> bool {
    if c.kind == "lay" {
        (c.h("layout") != 7 || o.labels & L_X1 != 0) && o.labels & (L_RESIZE_UP | L_FULL_LOAD) != 0
    } else if o.labels & L_MANY_MUT != 0 {
        true
    } else {
        o.labels & (L_DRAIN_CUT | L_INTOITER_CUT | L_EXTRACT_CUT | L_REHASH_IN_PLACE) != 0
    }
}

pub static C02: PropDef = PropDef {
    id: "C02",
    rule: "safe-API programs over HashTable / HashSet / HashMap<E,E> for 20 element layouts (14 plain (size, align) \
           pairs from (0,1) and (0,64) to (64,64) and (200,8), 6 tracked ones incl. a zero-sized type with drop glue) x hash plans x both back-ends: \
           insert/remove/lookup/reserve/shrink/clone/retain plus life-cycle operations that create an iterator, drain, \
           extract_if, into_iter, entry, raw entry, rustc entry or occupied-error object, advance it j steps and then \
           DROP or mem::forget it and keep using the collection; one quarter of the cases are HashMap histories with \
           tracked keys/values from the C04 alphabet, one case in eight is a get_many_mut program of C15 (two `&mut` to \
           one entry). Monitors: guarded allocator (red zones, poison, quarantine, \
           layout match), every reference checked for alignment / inside the data part of the live block / element \
           self-check, structure validator V1-V4, debug assertions and std unsafe-precondition checks. Non-trivial = \
           (a non-default layout, or a forget / strictly-inside early drop happened) and the table left the singleton state",
    level: "exploration",
    cases_quick: 60_000,
    cases_thorough: 1_500_000,
    strategy: c02_strategy,
    eval: eval_plain,
    nontrivial: c02_nontrivial,
    specs: hbv::specs::LAY_OPS,
    assumptions: &[
        "absence of undefined behaviour is only as good as the monitors: out-of-bounds writes near a block and reads that change behaviour are seen; the thorough tier adds AddressSanitizer (libFuzzer) and Miri replays",
        "data races are out of scope here (C16 covers Send/Sync)",
    ],
    prop_labels: &[(L_X1, "object_forgotten_or_dropped_strictly_inside"), (L_X2, "capacity_boundary_op"), (L_X3, "try_reserve_error_or_huge_request")],
};

// ---------------------------------------------------------------------------------------------
// C08: capacity contract

static C08_WEIGHTS: &[(u16, u32)] = &[
    (ly::INSERT, 14),
    (ly::REMOVE, 8),
    (ly::RESERVE, 12),
    (ly::SHRINK_TO_FIT, 8),
    (ly::SHRINK_TO, 12),
    (ly::CLEAR, 3),
    (ly::FILL_TO_CAPACITY, 12),
    (ly::REMOVE_RUN, 8),
    (ly::RETAIN, 3),
    (ly::WITH_CAPACITY, 10),
    (ly::LIFE, 3),
    (ly::CLONE_SWAP, 2),
];

static C08_MAP_WEIGHTS: &[(u16, u32)] = &[
    (m::INSERT, 10),
    (m::REMOVE, 6),
    (m::RESERVE, 10),
    (m::RESERVE_TO_BOUNDARY, 8),
    (m::SHRINK_TO_FIT, 6),
    (m::SHRINK_TO, 10),
    (m::FILL_TO_CAPACITY, 12),
    (m::REMOVE_RUN, 6),
    (m::REHASH_SETUP, 4),
    (m::CLEAR, 3),
    (m::DRAIN, 3),
    (m::DROP_RECREATE, 6),
    (m::ENTRY, 3),
    (m::TRY_RESERVE, 3),
    (m::REMOVE_ALL_BUT, 2),
    (m::EXTEND, 5),
];

fn c08_strategy(tier: Tier) -> BoxedStrategy<Case> {
    let n = if tier == Tier::Quick { 80 } else { 250 };
    union2(
        union2(
            lay_case_strategy(LayGen { prop: 8, weights: C08_WEIGHTS, max_ops: n, generic_pct: 25 }),
            2,
            map_case_strategy(MapGen { prop: 8, weights: C08_MAP_WEIGHTS, max_ops: n, generic_pct: 25, plain_pct: 50 }),
            1,
        ),
        BIG_ONE_IN,
        big_case_strategy(8),
        1,
    )
}

fn c08_nontrivial(c: &Case, o: &Outcome) -> bool {
    if c.kind == "big" {
        true
    } else if c.kind == "lay" {
        o.labels & (L_X2 | L_FULL_LOAD) != 0
    } else {
        o.labels & (L_TOMBSTONE | L_FULL_LOAD) != 0
    }
}

pub static C08: PropDef = PropDef {
    id: "C08",
    rule: "states from histories (tombstones included) x n, m drawn from 0..4*capacity and the 7/8*2^k / 2^k boundaries x \
           20 element layouts (minimum table size depends on element size) x the three collection kinds on the checking \
           allocator, plus new()/default()/with_capacity(0) on Global observed through a counting global allocator; \
           oracle: capacity >= len; after with_capacity/reserve capacity >= len+n; inserting capacity()-len() fresh keys \
           makes zero allocator calls; clear/drain keep the block; allocation_size() == ledger bytes; the shrink \
           inequalities of the statement incl. comparison with a fresh with_capacity(max(len, m)). Non-trivial = the \
           state had a tombstone or len()==capacity(), or an operation sat on a capacity boundary",
    level: "exploration",
    cases_quick: 60_000,
    cases_thorough: 1_500_000,
    strategy: c08_strategy,
    eval: eval_plain,
    nontrivial: c08_nontrivial,
    specs: hbv::specs::LAY_OPS,
    assumptions: &["HashMap::insert of a present key may reallocate (DESIGN 11.2); only not-yet-present keys are used for the no-allocation claim"],
    prop_labels: &[(L_X1, "object_forgotten_or_dropped_strictly_inside"), (L_X2, "capacity_boundary_op"), (L_X3, "try_reserve_error_or_huge_request")],
};

// ---------------------------------------------------------------------------------------------
// C12: try_reserve

static C12_WEIGHTS: &[(u16, u32)] = &[
    (ly::TRY_RESERVE, 40),
    (ly::INSERT, 16),
    (ly::REMOVE, 6),
    (ly::FILL_TO_CAPACITY, 5),
    (ly::REMOVE_RUN, 4),
    (ly::CLEAR, 1),
    (ly::SHRINK_TO_FIT, 2),
    (ly::WITH_CAPACITY, 2),
    (ly::GET, 2),
];

fn c12_strategy(tier: Tier) -> BoxedStrategy<Case> {
    lay_case_strategy(LayGen {
        prop: 12,
        weights: C12_WEIGHTS,
        max_ops: if tier == Tier::Quick { 60 } else { 200 },
        generic_pct: 25,
    })
}

fn c12_nontrivial(_c: &Case, o: &Outcome) -> bool {
    o.labels & L_X3 != 0
}

pub static C12: PropDef = PropDef {
    id: "C12",
    rule: "states x `additional` from {0..64, around every 7/8*2^k and 2^k (k <= 14), isize::MAX, usize::MAX, \
           usize::MAX/size_of::<T>() +- 1, ...} x 20 layouts incl. zero-sized x 3 collection kinds x allocator behaviour \
           {grant, refuse the j-th request, refuse above a limit L}; oracle: Ok (capacity >= len+additional) | \
           CapacityOverflow (never when an independently computed generous block size fits under L) | AllocError with \
           exactly a refused layout; never a panic; every layout shown to the allocator is valid; on Err contents, len, \
           capacity, block address and size are identical to the snapshot, no element event, no block left live. \
           Non-trivial = an Err on a non-empty state or an `additional` on an arithmetic boundary",
    level: "exploration",
    cases_quick: 60_000,
    cases_thorough: 1_500_000,
    strategy: c12_strategy,
    eval: eval_plain,
    nontrivial: c12_nontrivial,
    specs: hbv::specs::LAY_OPS,
    assumptions: &["allocator refusal is simulated by the checking allocator; real OOM of the system allocator is not exercised", "requests above 64 MiB are always refused (never really allocated)"],
    prop_labels: &[(L_X1, "object_forgotten_or_dropped_strictly_inside"), (L_X2, "capacity_boundary_op"), (L_X3, "try_reserve_error_or_huge_request")],
};

// ---------------------------------------------------------------------------------------------
// C17 (enumerating runner in special.rs) and C18 (differential + primitives)

fn never_strategy(_t: Tier) -> BoxedStrategy<Case> {
    use proptest::prelude::*;
    Just(Case::new("arith")).boxed()
}

pub static C17: PropDef = PropDef {
    id: "C17",
    rule: "enumeration through the verif-hooks wrappers on both group widths: capacity_to_buckets for cap = 2^k + d and \
           7/8*2^k + d (|d| <= 4096 quick / 65536 thorough, k in 0..64), exhaustively for cap in 1..=2^21 (quick) / \
           1..=2^32 (thorough), seeded random 64-bit capacities, x element sizes {0,1,2,3,4,8,16,200}; \
           bucket_mask_to_capacity for all 64 masks; calculate_layout_for over sizes {0..=64, .., 2^62, isize::MAX/2 +- 1, \
           random} x alignments 1..=4096 (sizes rounded to multiples of the alignment: layouts of real types) x 64 bucket \
           counts; probe sequences of 2^k buckets (k <= 20 quick / 26 thorough) from every start (k <= 12) or boundary + \
           sampled starts; TableLayout::new for 38 real types. requests through live HashTable / HashSet objects (len 0..100, four element sizes): try_reserve / reserve \
           with len + additional within 2 of every 2^k and 7/8*2^k (k <= 17 quick / 21 thorough) and additional within 4 \
           of usize::MAX - len, usize::MAX, isize::MAX, around 2^56..2^63 (Ok needs capacity() >= len + additional; \
           a panic or a wrapped sum is a violation). Oracle: u128 arithmetic written from the statement. \
           Non-trivial = input within 2 of a 2^k or 7/8*2^k boundary, a zero size, a bucket count >= 2^56 or a product \
           >= 2^62, or a probe start in the first/last group",
    level: "exploration",
    cases_quick: 0,
    cases_thorough: 0,
    strategy: never_strategy,
    eval: eval_plain,
    nontrivial: c01_nontrivial,
    specs: hbv::specs::MAP_OPS,
    assumptions: &[
        "exhaustive only in the ranges stated; above them capacities are sampled at boundaries and at random",
        "reporting overflow is accepted wherever the statement accepts it; overflow reported for requests below 2^40 is attributed to C12",
    ],
    prop_labels: &[],
};

// Only operations whose effect is a function of the history, not of the capacity, bucket positions
// or iteration order (those legitimately differ between the two group widths).
static C18_MAP_WEIGHTS: &[(u16, u32)] = &[
    (m::INSERT, 20),
    (m::TRY_INSERT, 4),
    (m::GET, 8),
    (m::GET_MUT, 4),
    (m::REMOVE, 14),
    (m::ENTRY, 8),
    (m::ENTRY_REF, 6),
    (m::EXTEND, 3),
    (m::REBUILD, 1),
    (m::CLEAR, 1),
    (m::RESERVE, 2),
    (m::SHRINK_TO_FIT, 2),
    (m::RETAIN, 3),
    (m::FILL_EXACT, 8),
    (m::REMOVE_ALL_BUT, 5),
    (m::CHURN, 6),
    (m::RESERVE_TO_BOUNDARY, 1),
    (m::INSERT_UNIQUE_UNCHECKED, 2),
    (m::REMOVE_NTH, 6),
    (m::GET_ABSENT, 2),
    (m::DRAIN, 1),
    // shared iterators only (see c18_strategy): what they yield is a function of the contents
    (m::ITER, 6),
    (m::RAW_ENTRY, 3),
    (m::RUSTC_ENTRY, 3),
    (m::GET_MANY_MUT, 2),
    (m::CLONE_TO_OTHER, 1),
    (m::CLONE_FROM_OTHER, 1),
    (m::SWAP, 1),
];
static C18_TABLE_WEIGHTS: &[(u16, u32)] = &[
    (t::INSERT_UNIQUE, 30),
    (t::FIND, 6),
    (t::FIND_MUT, 4),
    (t::FIND_ENTRY, 14),
    (t::ENTRY, 12),
    (t::RETAIN, 3),
    (t::DRAIN, 1),
    (t::CLEAR, 1),
    (t::RESERVE, 2),
    (t::TRY_RESERVE, 1),
    (t::SHRINK_TO_FIT, 2),
    (t::GET_MANY_MUT, 3),
    (t::ITER_HASH, 6),
    (t::ITER, 5),
    (t::CLONE_SWAP, 1),
    (t::REMOVE_ALL_BUT, 4),
    (t::REMOVE_NTH, 8),
];

fn c18_strategy(tier: Tier) -> BoxedStrategy<Case> {
    use proptest::prelude::*;
    let n = if tier == Tier::Quick { 100 } else { 300 };
    union2(
        map_case_strategy(MapGen { prop: 18, weights: C18_MAP_WEIGHTS, max_ops: n, generic_pct: 0, plain_pct: 30 }),
        3,
        table_case_strategy(TableGen { prop: 18, weights: C18_TABLE_WEIGHTS, max_ops: n, generic_pct: 0, plain_pct: 30 }),
        2,
    )
    .prop_map(|mut c| {
        c.set("transcript", 1);
        c.set("nodup", 1);
        // iterators that do not write: iter / keys / values (map), iter (table); which elements a prefix-mutating
        // iterator touches depends on the iteration order, which legitimately differs between the group widths
        let (iter_code, kinds): (u16, &[u64]) = if c.kind == "map" { (m::ITER, &[0, 2, 3]) } else { (t::ITER, &[0]) };
        for op in c.ops.iter_mut() {
            if op.code == iter_code {
                op.a[0] = kinds[(op.a[0] % kinds.len() as u64) as usize];
            }
        }
        c
    })
    .boxed()
}

fn eval_c18(case: &Case) -> Outcome {
    let mut a = case.clone();
    a.set("backend", 0);
    let mut b = case.clone();
    b.set("backend", 1);
    let oa = hbv::run_case(&a);
    let ob = hbv::run_case(&b);
    let mut total = Outcome::default();
    total.labels = oa.labels | ob.labels;
    total.steps = oa.steps + ob.steps;
    if let Some(v) = oa.violation {
        total.violation = Some(v);
        total.repro = Some(a);
        return total;
    }
    if let Some(v) = ob.violation {
        total.violation = Some(v);
        total.repro = Some(b);
        return total;
    }
    if oa.transcript != ob.transcript {
        let step = oa.transcript.iter().zip(ob.transcript.iter()).position(|(x, y)| x != y).unwrap_or(oa.transcript.len().min(ob.transcript.len()));
        total.violation = Some(hbv::world::Violation {
            property: "C18",
            kind: "transcript-differs".into(),
            step,
            detail: format!("observable contents after step {step} differ between the SSE2 and the portable scanner ({} vs {} steps recorded)", oa.transcript.len(), ob.transcript.len()),
        });
        total.repro = Some(a);
    }
    total
}

fn c18_nontrivial(_c: &Case, o: &Outcome) -> bool {
    o.labels & (L_TOMBSTONE | L_REHASH_IN_PLACE | L_LONG_PROBE | L_ITER_HASH_LONG) != 0
}

pub static C18: PropDef = PropDef {
    id: "C18",
    rule: "(a) every generated C01 (HashMap) and C06 (HashTable) case is executed on the SSE2 build and on the portable \
           twin (same source compiled with cfg(miri)) in one process; both must satisfy the reference model at every step \
           and their per-step digests of (len, sorted contents) must be identical; non-trivial = the case reached a \
           tombstone, an in-place rehash or a probe longer than one group. (b) scanner primitives through the hooks on \
           both back-ends: all 2^16 values of every adjacent byte pair at every position of 4 background groups with the \
           tags that matter (all 128 thorough) plus seeded random groups; bytewise oracle, exact for SSE2, documented \
           superset for the portable match_tag; BitMask queries in element units; non-trivial = group of valid control bytes",
    level: "exploration",
    cases_quick: 30_000,
    cases_thorough: 600_000,
    strategy: c18_strategy,
    eval: eval_c18,
    nontrivial: c18_nontrivial,
    specs: hbv::specs::MAP_OPS,
    assumptions: &[
        "the portable back-end is the crate's own generic.rs selected by its own cfg(miri) switch in a twin package; NEON/LSX back-ends are not buildable here",
        "capacity, allocation size and iteration order legitimately differ between widths and are excluded",
    ],
    prop_labels: &[],
};

// ---------------------------------------------------------------------------------------------
// C20: serde

fn c20_strategy(_tier: Tier) -> BoxedStrategy<Case> {
    serde_case_strategy()
}

fn c20_nontrivial(_c: &Case, o: &Outcome) -> bool {
    o.labels & (L_X1 | L_X2 | L_X3) != 0
}

pub static C20: PropDef = PropDef {
    id: "C20",
    rule: "maps / sets of tracked elements x entry streams with repeated keys x claimed size hints {none, len, 1, 4095, \
           4096, 4097, 5000, 8192, 20 000, 50 000, 100 000, 2^32, 2^63, 2^63+1, usize::MAX/2, usize::MAX-1, usize::MAX} x an element deserialisation error at position e (keys and values \
           both count) x mode {serialize -> serde_json -> deserialize, serde value deserializers over a lying iterator, \
           deserialize_in_place into a pre-filled set}; oracle: round trip ==, last value wins, Err is returned, every \
           built element dropped exactly once and no block left, bytes reserved before the first element is read <= block \
           of with_capacity(4096). Non-trivial = duplicate keys, a claim above 4096, or an injected error inside the stream",
    level: "exploration",
    cases_quick: 200_000,
    cases_thorough: 3_000_000,
    strategy: c20_strategy,
    eval: eval_plain,
    nontrivial: c20_nontrivial,
    specs: hbv::specs::SERDE_OPS,
    assumptions: &["allocation is observed through the checking allocator used as `A: Default`", "formats: serde_json and serde's value deserializers (MapDeserializer / SeqDeserializer)"],
    prop_labels: &[(L_X1, "duplicate_keys_in_stream"), (L_X2, "claimed_hint_above_4096"), (L_X3, "element_error_inside_stream")],
};

// ---------------------------------------------------------------------------------------------
// C19: rayon

fn c19_strategy(tier: Tier) -> BoxedStrategy<Case> {
    par_case_strategy(if tier == Tier::Quick { 14 } else { 30 })
}

fn c19_nontrivial(_c: &Case, o: &Outcome) -> bool {
    o.labels & (L_X1 | L_X2) != 0
}

pub static C19: PropDef = PropDef {
    id: "C19",
    rule: "occupancy patterns built by fill / insert / remove-range / remove-stride histories on a HashMap, two \
           HashSets and a HashTable (up to ~4096 buckets) of atomically tracked elements x parallel operation x pool \
           size in {1,2,3,4,8,16,64}: par_iter / par_keys / par_values / par_iter_mut / par_values_mut, into_par_iter \
           and par_drain fully consumed or stopped early (try_for_each, find_any, or a consumer that panics at the k-th item), par_extend, from_par_iter, par_eq, \
           parallel set operations and predicates vs mathematical results; plus EXPLICIT split trees through the hooks: \
           RawIterRange::split leaves must partition the FULL bucket indices, and ParDrainProducer driven along a tree \
           of split / fold-with-a-folder-that-fills-up / drop decisions. Oracle: delivered multiset == contents, drop \
           count of every element == 1 (atomic per-serial registry), collection empty + valid + usable after par_drain, \
           no block left. Non-trivial = an explicit tree with >= 3 leaves, or an early stop strictly inside",
    level: "exploration",
    cases_quick: 16_000,
    cases_thorough: 400_000,
    strategy: c19_strategy,
    eval: eval_plain,
    nontrivial: c19_nontrivial,
    specs: hbv::specs::PAR_OPS,
    assumptions: &[
        "real rayon schedules are not controlled; the oracle is schedule independent and the controlled part is the explicit split tree",
        "the hook driver for ParDrainProducer repeats the three set-up lines of RawParDrain::drive_unindexed (DESIGN section 4)",
    ],
    prop_labels: &[(L_X1, "early_stop_strictly_inside"), (L_X2, "explicit_tree_with_3_or_more_leaves"), (L_X3, "parallel_set_ops_on_incomparable_sets")],
};

pub fn all() -> Vec<&'static PropDef> {
    vec![&C01, &C02, &C03, &C04, &C05, &C06, &C07, &C08, &C09, &C10, &C11, &C12, &C13, &C14, &C15, &C17, &C18, &C19, &C20]
}
