//! Property definitions: generator, evaluation, non-triviality rule.

use crate::engine::{PropDef, Tier};
use crate::strategies::*;
use hbv::case::Case;
use hbv::dump::*;
use hbv::outcome::Outcome;
use hbv::specs::map as m;
use proptest::strategy::BoxedStrategy;

fn eval_plain(case: &Case) -> Outcome {
    hbv::run_case(case)
}

const STRUCT_LABELS: u32 = L_TOMBSTONE | L_REHASH_IN_PLACE | L_RESIZE_UP | L_RESIZE_DOWN | L_FIXUP | L_MIRROR_PROBE;

// ---------------------------------------------------------------------------------------------
// C01

static C01_WEIGHTS: &[(u16, u32)] = &[
    (m::INSERT, 20),
    (m::TRY_INSERT, 4),
    (m::GET, 8),
    (m::GET_MUT, 4),
    (m::REMOVE, 14),
    (m::ENTRY, 8),
    (m::ENTRY_REF, 6),
    (m::EXTEND, 3),
    (m::REBUILD, 1),
    (m::CLEAR, 1),
    (m::RESERVE, 2),
    (m::SHRINK_TO_FIT, 2),
    (m::SHRINK_TO, 2),
    (m::RETAIN, 2),
    (m::FILL_TO_CAPACITY, 3),
    (m::FILL_EXACT, 3),
    (m::REMOVE_RUN, 5),
    (m::REMOVE_ALL_BUT, 2),
    (m::CHURN, 3),
    (m::RESERVE_TO_BOUNDARY, 1),
    (m::INSERT_UNIQUE_UNCHECKED, 2),
    (m::REMOVE_NTH, 4),
    (m::GET_ABSENT, 2),
];

fn c01_strategy(tier: Tier) -> BoxedStrategy<Case> {
    map_case_strategy(MapGen {
        prop: 1,
        weights: C01_WEIGHTS,
        max_ops: if tier == Tier::Quick { 120 } else { 400 },
        generic_pct: 20,
        plain_pct: 30,
    })
}

fn c01_nontrivial(_c: &Case, o: &Outcome) -> bool {
    o.labels & L_REMOVE_PRESENT != 0 && o.labels & STRUCT_LABELS != 0
}

pub static C01: PropDef = PropDef {
    id: "C01",
    rule: "cases = (hash plan, key universe, initial capacity, back-end, element flavour, op list) drawn by proptest; \
           distinct by FNV digest of the canonical text; non-trivial = the case removed a present key AND reached at \
           least one of {tombstone, in-place rehash, resize, small-table fix-up, probe through the mirror bytes}",
    level: "exploration",
    cases_quick: 24_000,
    cases_thorough: 400_000,
    strategy: c01_strategy,
    eval: eval_plain,
    nontrivial: c01_nontrivial,
    specs: hbv::specs::MAP_OPS,
    assumptions: &[
        "the association-list model and the probe simulation of the validator are correct",
        "the verif-hooks dump reads the table's fields faithfully",
        "table sizes explored are bounded (<= a few thousand buckets)",
    ],
    prop_labels: &[(L_PROP_A, "entry_at_growth_left_0"), (L_PROP_B, "probe_window_with_tombstone")],
};

pub fn all() -> Vec<&'static PropDef> {
    vec![&C01]
}
