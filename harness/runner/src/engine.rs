//! Generic proptest-driven engine: 16 workers, fixed seeds, structural shrinking, replay files,
//! evidence JSON.

use hbv::case::{Case, OpSpec};
use hbv::outcome::Outcome;
use hbv::world::Violation;
use proptest::strategy::BoxedStrategy;
use proptest::test_runner::{Config, RngSeed, TestCaseError, TestError, TestRunner};
use std::collections::{BTreeMap, HashSet};
use std::sync::atomic::{AtomicBool, Ordering};
use std::sync::{Arc, Mutex};

#[derive(Clone, Copy, Debug, PartialEq, Eq)]
pub enum Tier {
    Quick,
    Thorough,
}

pub struct PropDef {
    pub id: &'static str,
    pub rule: &'static str,
    pub level: &'static str,
    pub cases_quick: u32,
    pub cases_thorough: u32,
    pub strategy: fn(Tier) -> BoxedStrategy<Case>,
    pub eval: fn(&Case) -> Outcome,
    pub nontrivial: fn(&Case, &Outcome) -> bool,
    pub specs: &'static [OpSpec],
    pub assumptions: &'static [&'static str],
    /// names of the property-specific label bits
    pub prop_labels: &'static [(u32, &'static str)],
}

#[derive(Default)]
pub struct Stats {
    pub evaluations: u64,
    pub steps: u64,
    pub nontrivial: HashSet<u64>,
    pub distinct: HashSet<u64>,
    pub labels: BTreeMap<String, u64>,
    pub per_plan: BTreeMap<String, BTreeMap<String, u64>>,
    pub counters: BTreeMap<String, u64>,
    pub samples: Vec<String>,
    pub backends: BTreeMap<String, u64>,
    /// non-trivial inputs counted by enumerating runners (distinct by construction)
    pub nontrivial_counted: u64,
    /// small non-trivial cases (text) for the Miri replays of the thorough tier
    pub small_cases: Vec<String>,
}

impl Stats {
    pub fn merge(&mut self, o: Stats) {
        self.nontrivial_counted += o.nontrivial_counted;
        self.evaluations += o.evaluations;
        self.steps += o.steps;
        self.nontrivial.extend(o.nontrivial);
        self.distinct.extend(o.distinct);
        for (k, v) in o.labels {
            *self.labels.entry(k).or_default() += v;
        }
        for (k, m) in o.per_plan {
            let e = self.per_plan.entry(k).or_default();
            for (k2, v) in m {
                *e.entry(k2).or_default() += v;
            }
        }
        for (k, v) in o.counters {
            let e = self.counters.entry(k.clone()).or_default();
            if k.starts_with("max_") {
                *e = (*e).max(v);
            } else {
                *e += v;
            }
        }
        for (k, v) in o.backends {
            *self.backends.entry(k).or_default() += v;
        }
        for s in o.samples {
            if self.samples.len() < 8 {
                self.samples.push(s);
            }
        }
        for s in o.small_cases {
            if self.small_cases.len() < 64 {
                self.small_cases.push(s);
            }
        }
    }
}

pub struct Failure {
    pub case: Case,
    pub violation: Violation,
    pub reason: String,
}

pub struct RunResult {
    pub stats: Stats,
    pub failures: Vec<Failure>,
    pub wall_s: f64,
}

fn label_names(def: &PropDef, labels: u32) -> Vec<&'static str> {
    let mut v = Vec::new();
    for (bit, name) in hbv::dump::LABEL_NAMES.iter() {
        if labels & bit != 0 {
            v.push(*name);
        }
    }
    for (bit, name) in def.prop_labels.iter() {
        if labels & bit != 0 {
            v.push(*name);
        }
    }
    v
}

pub fn plan_name(case: &Case) -> String {
    let p = hbv::plan::Plan {
        pos_rule: case.h("pos") as u32,
        pos_param: case.h("pos_p") as u32,
        tag_rule: case.h("tag") as u32,
        tag_param: case.h("tag_p") as u32,
        seed: case.h("seed"),
    };
    p.name()
}

pub fn run_property(def: &'static PropDef, tier: Tier, seed: u64, cases_override: Option<u32>, workers: usize) -> RunResult {
    let t0 = std::time::Instant::now();
    let total_cases = cases_override.unwrap_or(match tier {
        Tier::Quick => def.cases_quick,
        Tier::Thorough => def.cases_thorough,
    });
    let per_worker = (total_cases as usize + workers - 1) / workers;
    let stop = Arc::new(AtomicBool::new(false));
    let merged = Arc::new(Mutex::new(Stats::default()));
    let failures: Arc<Mutex<Vec<Failure>>> = Arc::new(Mutex::new(Vec::new()));
    let mut handles = Vec::new();
    for w in 0..workers {
        let stop = stop.clone();
        let merged = merged.clone();
        let failures = failures.clone();
        let h = std::thread::Builder::new()
            .name(format!("worker-{w}"))
            .stack_size(64 << 20)
            .spawn(move || {
                let cfg = Config {
                    cases: per_worker as u32,
                    failure_persistence: None,
                    rng_seed: RngSeed::Fixed(seed.wrapping_mul(1_000_003).wrapping_add(w as u64)),
                    max_shrink_iters: match tier {
                        Tier::Quick => 4000,
                        Tier::Thorough => 20000,
                    },
                    max_shrink_time: 0,
                    verbose: 0,
                    ..Config::default()
                };
                let mut runner = TestRunner::new(cfg);
                let strategy = (def.strategy)(tier);
                let stats = std::cell::RefCell::new(Stats::default());
                let failed = std::cell::Cell::new(false);
                let first_failure: std::cell::RefCell<Option<(Case, Violation)>> = std::cell::RefCell::new(None);
                let result = runner.run(&strategy, |case| {
                    if stop.load(Ordering::Relaxed) && !failed.get() {
                        // another worker found a failure: finish quickly
                        return Ok(());
                    }
                    hbv::crash::set_current(w, &case.to_text(hbv::specs::specs_for(&case.kind)));
                    let out = (def.eval)(&case);
                    hbv::crash::clear_current(w);
                    if !failed.get() {
                        let mut st = stats.borrow_mut();
                        st.evaluations += 1;
                        st.steps += out.steps as u64;
                        let dg = case.digest();
                        st.distinct.insert(dg);
                        let nt = (def.nontrivial)(&case, &out);
                        if nt && case.ops.len() <= 24 && st.small_cases.len() < 6 && !matches!(case.kind.as_str(), "par" | "arith" | "prim") {
                            st.small_cases.push(case.to_text(hbv::specs::specs_for(&case.kind)));
                        }
                        if nt {
                            st.nontrivial.insert(dg);
                            if st.samples.len() < 2 && w < 2 {
                                st.samples.push(case.to_text(hbv::specs::specs_for(&case.kind)));
                            }
                        }
                        let pn = if case.kind == "lay" {
                            format!("{}:{}", ["table", "set", "map"][(case.h("coll") % 3) as usize], hbv::layouts::LAYOUT_NAMES[(case.h("layout") % hbv::layouts::N_LAYOUTS) as usize])
                        } else {
                            plan_name(&case)
                        };
                        for name in label_names(def, out.labels) {
                            *st.labels.entry(name.to_string()).or_default() += 1;
                            *st.per_plan.entry(pn.clone()).or_default().entry(name.to_string()).or_default() += 1;
                        }
                        *st.per_plan.entry(pn).or_default().entry("cases".to_string()).or_default() += 1;
                        for (k, v) in &out.counters {
                            let e = st.counters.entry(k.to_string()).or_default();
                            if k.starts_with("max_") {
                                *e = (*e).max(*v);
                            } else {
                                *e += v;
                            }
                        }
                        let be = if case.h("backend") == 0 { "sse2" } else { "generic" };
                        *st.backends.entry(be.to_string()).or_default() += 1;
                    }
                    match out.violation {
                        Some(v) => {
                            if first_failure.borrow().is_none() {
                                *first_failure.borrow_mut() = Some((out.repro.clone().unwrap_or_else(|| case.clone()), v.clone()));
                            }
                            failed.set(true);
                            stop.store(true, Ordering::Relaxed);
                            Err(TestCaseError::fail(format!("{}:{}", v.property, v.kind)))
                        }
                        None => Ok(()),
                    }
                });
                merged.lock().unwrap().merge(stats.into_inner());
                if let Err(e) = result {
                    match e {
                        TestError::Fail(reason, case) => {
                            // re-run the minimal case to obtain the violation record; schedule-dependent
                            // failures (real rayon pools) may need a few tries or fall back to the
                            // first failing case
                            let mut out = (def.eval)(&case);
                            for _ in 0..3 {
                                if out.violation.is_some() {
                                    break;
                                }
                                out = (def.eval)(&case);
                            }
                            let (case, violation) = match (out.violation, first_failure.borrow_mut().take()) {
                                (Some(v), _) => (out.repro.clone().unwrap_or(case), v),
                                (None, Some((c0, v0))) => (
                                    c0,
                                    Violation { detail: format!("{} [schedule dependent: the shrunk case did not reproduce in 4 tries; this is the first failing case]", v0.detail), ..v0 },
                                ),
                                (None, None) => (
                                    case,
                                    Violation { property: def.id, kind: "not-reproducible".into(), step: 0, detail: format!("shrunk case did not reproduce: {reason}") },
                                ),
                            };
                            failures.lock().unwrap().push(Failure {
                                case,
                                violation,
                                reason: reason.to_string(),
                            });
                        }
                        TestError::Abort(r) => {
                            eprintln!("worker {w}: proptest aborted: {r}");
                        }
                    }
                }
            })
            .unwrap();
        handles.push(h);
    }
    // hang watchdog (DESIGN 7.4): no progress at all for HANG_SECS seconds
    let done = Arc::new(AtomicBool::new(false));
    {
        let done = done.clone();
        std::thread::spawn(move || {
            let limit: u64 = std::env::var("HBV_HANG_SECS").ok().and_then(|s| s.parse().ok()).unwrap_or(if tier == Tier::Quick { 30 } else { 60 });
            let mut last = hbv::watchdog::PROGRESS.load(Ordering::Relaxed);
            let mut idle = 0u64;
            loop {
                std::thread::sleep(std::time::Duration::from_secs(1));
                if done.load(Ordering::Relaxed) {
                    return;
                }
                let now = hbv::watchdog::PROGRESS.load(Ordering::Relaxed);
                if now == last {
                    idle += 1;
                } else {
                    idle = 0;
                    last = now;
                }
                if idle >= limit {
                    let cases = hbv::crash::snapshot_all();
                    let path = std::env::var("HBV_HANG_FILE").unwrap_or_else(|_| "/tmp/hbv-hang.cases".into());
                    let mut text = String::new();
                    for c in cases {
                        text.push_str("=== hbv-crash-case ===\n");
                        text.push_str(&c);
                    }
                    let _ = std::fs::write(&path, text);
                    eprintln!("WATCHDOG: no progress for {limit} s; current cases dumped to {path}");
                    std::process::exit(3);
                }
            }
        });
    }
    let mut infra_fail = false;
    for h in handles {
        if h.join().is_err() {
            infra_fail = true;
        }
    }
    done.store(true, Ordering::Relaxed);
    if infra_fail {
        eprintln!("a worker thread panicked outside a case: infrastructure failure");
        std::process::exit(2);
    }
    let stats = std::mem::take(&mut *merged.lock().unwrap());
    let failures = std::mem::take(&mut *failures.lock().unwrap());
    RunResult {
        stats,
        failures,
        wall_s: t0.elapsed().as_secs_f64(),
    }
}

pub fn write_replay(def: &PropDef, f: &Failure, dir: &str, seed: u64, tier: Tier) -> String {
    let sub = format!("{dir}/{}", f.violation.property);
    let _ = std::fs::create_dir_all(&sub);
    let kind: String = f
        .violation
        .kind
        .chars()
        .map(|c| if c.is_ascii_alphanumeric() || c == '-' || c == '_' { c } else { '_' })
        .collect();
    let path = format!("{sub}/{}-{:016x}.case", kind, f.case.digest());
    let mut text = String::new();
    text.push_str(&format!("# found by check {} tier {:?} seed {}\n", def.id, tier, seed));
    text.push_str(&format!(
        "# violation property={} kind={} step={}\n# detail: {}\n",
        f.violation.property,
        f.violation.kind,
        f.violation.step,
        f.violation.detail.replace('\n', " ")
    ));
    text.push_str(&f.case.to_text(hbv::specs::specs_for(&f.case.kind)));
    let _ = std::fs::write(&path, text);
    path
}

pub fn evidence_json(def: &PropDef, tier: Tier, seed: u64, r: &RunResult, violations: usize, extra: serde_json::Value) -> serde_json::Value {
    let st = &r.stats;
    let mut samples: Vec<serde_json::Value> = st
        .samples
        .iter()
        .map(|s| {
            let lines: Vec<&str> = s.lines().collect();
            let shown: Vec<&str> = lines.iter().take(40).copied().collect();
            serde_json::json!({"case_text": shown.join("\n"), "lines_total": lines.len()})
        })
        .collect();
    if samples.is_empty() {
        samples.push(serde_json::json!({"note": "no non-trivial case was generated in this run"}));
    }
    let mut coverage = serde_json::json!({
        "evaluations": st.evaluations,
        "distinct_cases": st.distinct.len(),
        "distinct_nontrivial": st.nontrivial.len() as u64 + st.nontrivial_counted,
        "rule": def.rule,
        "samples": samples,
        "steps_executed": st.steps,
        "labels": st.labels,
        "per_plan": st.per_plan,
        "counters": st.counters,
        "backends": st.backends,
        "exhaustive": false,
    });
    if let (Some(c), Some(e)) = (coverage.as_object_mut(), extra.as_object()) {
        for (k, v) in e {
            c.insert(k.clone(), v.clone());
        }
    }
    serde_json::json!({
        "property_id": def.id,
        "tier": match tier { Tier::Quick => "quick", Tier::Thorough => "thorough" },
        "seed": seed,
        "level": def.level,
        "coverage": coverage,
        "assumptions": def.assumptions,
        "wall_s": r.wall_s,
        "violations": violations,
    })
}
