//! Proptest strategies producing structured `Case` values.

use hbv::case::{Arg, Case, Op, OpSpec, MAX_ARGS};
use proptest::collection::vec;
use proptest::prelude::*;
use proptest::strategy::Union;

pub fn arg_strategy(kind: Arg, universe: u64) -> BoxedStrategy<u64> {
    match kind {
        Arg::Key => (0..universe.max(1)).boxed(),
        Arg::Val => (0u64..1000).boxed(),
        Arg::Small(n) => (0..=n).boxed(),
        Arg::Frac => prop_oneof![
            6 => 0u64..65536,
            1 => Just(0u64),
            1 => Just(65535u64),
            1 => Just(32768u64),
        ]
        .boxed(),
        Arg::Bool => (0u64..2).boxed(),
        Arg::Choice(n) => (0..n.max(1)).boxed(),
        Arg::Any => prop_oneof![3 => 0u64..64, 1 => any::<u64>()].boxed(),
        Arg::Wide => any::<u64>().boxed(),
    }
}

pub fn op_strategy(spec: &'static OpSpec, universe: u64) -> BoxedStrategy<Op> {
    let code = spec.code;
    let mut strat: BoxedStrategy<Vec<u64>> = Just(Vec::new()).boxed();
    for kind in spec.args.iter().copied() {
        let a = arg_strategy(kind, universe);
        strat = (strat, a)
            .prop_map(|(mut v, x)| {
                v.push(x);
                v
            })
            .boxed();
    }
    strat
        .prop_map(move |v| {
            let mut a = [0u64; MAX_ARGS];
            for (i, x) in v.iter().enumerate().take(MAX_ARGS) {
                a[i] = *x;
            }
            Op { code, a }
        })
        .boxed()
}

/// Weighted union over an op alphabet.
pub fn ops_strategy(specs: &'static [OpSpec], weights: &[(u16, u32)], universe: u64) -> BoxedStrategy<Op> {
    let mut opts = Vec::new();
    for (code, w) in weights {
        if *w == 0 {
            continue;
        }
        let spec = specs.iter().find(|s| s.code == *code).expect("weight for unknown op");
        opts.push((*w, op_strategy(spec, universe)));
    }
    Union::new_weighted(opts).boxed()
}

/// (pos_rule, pos_param, tag_rule, tag_param, seed)
pub fn plan_strategy() -> BoxedStrategy<(u64, u64, u64, u64, u64)> {
    let pos = prop_oneof![
        6 => Just(0u64), // mixed
        3 => Just(1u64), // const
        3 => Just(2u64), // mod
        2 => Just(3u64), // stride16
        2 => Just(4u64), // stride8
        2 => Just(5u64), // last slots
        2 => Just(6u64), // ident
        2 => Just(7u64), // const all ones
    ];
    let tag = prop_oneof![
        5 => Just(0u64),
        3 => Just(1u64),
        2 => Just(2u64),
        2 => Just(3u64),
    ];
    (pos, 0u64..64, tag, prop_oneof![Just(0u64), Just(0x7fu64), 0u64..128], 0u64..1000).boxed()
}

pub fn set_plan(case: &mut Case, prefix: &str, p: (u64, u64, u64, u64, u64)) {
    case.set(&format!("{prefix}pos"), p.0);
    case.set(&format!("{prefix}pos_p"), p.1);
    case.set(&format!("{prefix}tag"), p.2);
    case.set(&format!("{prefix}tag_p"), p.3);
    case.set(&format!("{prefix}seed"), p.4);
}

pub fn universe_strategy() -> BoxedStrategy<u64> {
    prop_oneof![
        2 => Just(4u64),
        3 => Just(8u64),
        4 => Just(16u64),
        3 => Just(24u64),
        2 => Just(64u64),
        2 => Just(400u64),
    ]
    .boxed()
}

pub fn cap_strategy() -> BoxedStrategy<u64> {
    prop_oneof![
        6 => Just(0u64),
        1 => Just(1u64),
        1 => Just(3u64),
        1 => Just(4u64),
        1 => Just(7u64),
        1 => Just(14u64),
        1 => Just(15u64),
        1 => Just(28u64),
        1 => Just(29u64),
        1 => Just(56u64),
        1 => Just(112u64),
        1 => 0u64..300,
    ]
    .boxed()
}

pub struct MapGen {
    pub prop: u64,
    pub weights: &'static [(u16, u32)],
    pub max_ops: usize,
    /// percentage of cases on the portable twin
    pub generic_pct: u32,
    /// percentage of cases with plain (no drop glue) elements
    pub plain_pct: u32,
}

pub fn map_case_strategy(g: MapGen) -> BoxedStrategy<Case> {
    let MapGen {
        prop,
        weights,
        max_ops,
        generic_pct,
        plain_pct,
    } = g;
    (universe_strategy(), plan_strategy(), plan_strategy(), cap_strategy(), cap_strategy(), 0u32..100, 0u32..100)
        .prop_flat_map(move |(u, plan, plan_b, cap, cap_b, be, el)| {
            let ops = vec(ops_strategy(hbv::specs::MAP_OPS, weights, u), 0..max_ops);
            ops.prop_map(move |ops| {
                let mut c = Case::new("map");
                c.set("prop", prop);
                c.set("u", u);
                c.set("cap", cap);
                c.set("b_cap", cap_b);
                c.set("backend", (be < generic_pct) as u64);
                c.set("elem", (el < plain_pct) as u64);
                set_plan(&mut c, "", plan);
                set_plan(&mut c, "b_", plan_b);
                c.ops = ops;
                c
            })
        })
        .boxed()
}

pub struct TableGen {
    pub prop: u64,
    pub weights: &'static [(u16, u32)],
    pub max_ops: usize,
    pub generic_pct: u32,
    pub plain_pct: u32,
}

pub fn table_case_strategy(g: TableGen) -> BoxedStrategy<Case> {
    let TableGen { prop, weights, max_ops, generic_pct, plain_pct } = g;
    let nh = prop_oneof![2 => Just(1u64), 2 => Just(2u64), 3 => Just(4u64), 3 => Just(16u64), 2 => Just(64u64)];
    let u = prop_oneof![2 => Just(2u64), 3 => Just(6u64), 3 => Just(16u64), 1 => Just(64u64)];
    (u, nh, plan_strategy(), cap_strategy(), 0u32..100, 0u32..100)
        .prop_flat_map(move |(u, nh, plan, cap, be, el)| {
            let ops = vec(ops_strategy(hbv::specs::TABLE_OPS, weights, u * nh), 0..max_ops);
            ops.prop_map(move |ops| {
                let mut c = Case::new("table");
                c.set("prop", prop);
                c.set("u", u);
                c.set("nh", nh);
                c.set("cap", cap);
                c.set("backend", (be < generic_pct) as u64);
                c.set("elem", (el < plain_pct) as u64);
                set_plan(&mut c, "", plan);
                c.ops = ops;
                c
            })
        })
        .boxed()
}

pub struct SetGen {
    pub prop: u64,
    pub weights: &'static [(u16, u32)],
    pub max_ops: usize,
    pub generic_pct: u32,
    pub plain_pct: u32,
}

pub fn set_case_strategy(g: SetGen) -> BoxedStrategy<Case> {
    let SetGen { prop, weights, max_ops, generic_pct, plain_pct } = g;
    let u = prop_oneof![2 => Just(4u64), 3 => Just(8u64), 4 => Just(16u64), 3 => Just(32u64), 2 => Just(100u64)];
    (u, plan_strategy(), plan_strategy(), cap_strategy(), cap_strategy(), 0u32..100, 0u32..100)
        .prop_flat_map(move |(u, plan, plan_b, cap, cap_b, be, el)| {
            let ops = vec(ops_strategy(hbv::specs::SET_OPS, weights, u), 0..max_ops);
            ops.prop_map(move |ops| {
                let mut c = Case::new("set");
                c.set("prop", prop);
                c.set("u", u);
                c.set("cap", cap);
                c.set("b_cap", cap_b);
                c.set("backend", (be < generic_pct) as u64);
                c.set("elem", (el < plain_pct) as u64);
                set_plan(&mut c, "", plan);
                set_plan(&mut c, "b_", plan_b);
                c.ops = ops;
                c
            })
        })
        .boxed()
}

pub struct LayGen {
    pub prop: u64,
    pub weights: &'static [(u16, u32)],
    pub max_ops: usize,
    pub generic_pct: u32,
}

pub fn lay_case_strategy(g: LayGen) -> BoxedStrategy<Case> {
    let LayGen { prop, weights, max_ops, generic_pct } = g;
    let u = prop_oneof![2 => Just(4u64), 3 => Just(12u64), 3 => Just(40u64), 1 => Just(200u64)];
    let slack = prop_oneof![13 => Just(0u64), 1 => Just(1u64), 1 => Just(16u64), 1 => Just(4096u64)];
    (u, 0u64..hbv::layouts::N_LAYOUTS, 0u64..3, plan_strategy(), cap_strategy(), 0u32..100, slack)
        .prop_flat_map(move |(u, layout, coll, plan, cap, be, slack)| {
            let ops = vec(ops_strategy(hbv::specs::LAY_OPS, weights, u), 0..max_ops);
            ops.prop_map(move |ops| {
                let mut c = Case::new("lay");
                c.set("prop", prop);
                c.set("u", u);
                c.set("layout", layout);
                c.set("coll", coll);
                c.set("cap", cap);
                c.set("slack", slack);
                c.set("backend", (be < generic_pct) as u64);
                set_plan(&mut c, "", plan);
                c.ops = ops;
                c
            })
        })
        .boxed()
}

/// Collections with more than 2^16 elements (`interp_big.rs`): counting statements only.
pub fn big_case_strategy(prop: u64) -> BoxedStrategy<Case> {
    (plan_strategy(), 0u64..3, 0u64..5000, 0u64..101, 0u64..4, 0u32..100)
        .prop_map(move |(plan, coll, n_extra, keep, scale, be)| {
            let mut c = Case::new("big");
            c.set("prop", prop);
            c.set("coll", coll);
            c.set("n_extra", n_extra);
            c.set("keep", keep);
            c.set("scale", (scale == 3) as u64);
            c.set("backend", (be < 25) as u64);
            // spread positions only (mixed / identity): with colliding positions 2^16 inserts are quadratic
            let plan = (if plan.0 % 2 == 0 { 0 } else { 6 }, plan.1, plan.2, plan.3, plan.4);
            set_plan(&mut c, "", plan);
            c
        })
        .boxed()
}

pub fn serde_case_strategy() -> BoxedStrategy<Case> {
    let u = prop_oneof![2 => Just(3u64), 3 => Just(10u64), 2 => Just(60u64), 1 => Just(5000u64)];
    (u, plan_strategy(), 0u64..2, 0u64..4, 0u64..20, 0u32..100, 0u64..40, 0u32..100, 0u64..100)
        .prop_flat_map(move |(u, plan, coll, mode, hint, errp, pre, be, etp)| {
            let n = prop_oneof![4 => 0usize..12, 3 => 12usize..80, 1 => 80usize..400];
            (n, 0u64..65536).prop_flat_map(move |(n, errfrac)| {
                vec((0..u, 0u64..1000), n..=n).prop_map(move |entries| {
                    let mut c = Case::new("serde");
                    c.set("prop", 20);
                    c.set("coll", coll);
                    c.set("mode", mode);
                    c.set("hint", hint);
                    c.set("pre", pre);
                    // 30% of the cases use a plain element type (zero-sized, u8, u64, bool, String) instead
                    // of the tracked pair
                    c.set("etype", if etp < 30 { 1 + etp % 6 } else { 0 });
                    c.set("backend", (be < 20) as u64);
                    // an error in 35% of the cases, at an element position inside (or just past) the stream
                    let units = entries.len() as u64 * if coll == 1 { 1 } else { 2 };
                    c.set("err", if errp < 35 { 1 + hbv::case::frac_to(errfrac, units as usize + 1) as u64 } else { 0 });
                    set_plan(&mut c, "", plan);
                    c.ops = entries.iter().map(|(k, v)| hbv::case::Op::new(0, &[*k, *v])).collect();
                    c
                })
            })
        })
        .boxed()
}

pub fn par_case_strategy(max_ops: usize) -> BoxedStrategy<Case> {
    static W: &[(u16, u32)] = &[
        (hbv::specs::par::INSERT, 6),
        (hbv::specs::par::FILL, 10),
        (hbv::specs::par::REMOVE_RANGE, 4),
        (hbv::specs::par::REMOVE_STRIDE, 3),
        (hbv::specs::par::PAR, 20),
    ];
    let size = || prop_oneof![2 => 0u64..20, 3 => 20u64..300, 3 => 300u64..3001];
    (plan_strategy(), 0u32..100, [size(), size(), size(), size()], [0u64..4000, 0u64..4000, 0u64..4000, 0u64..4000])
        .prop_flat_map(move |(plan, be, sizes, bases)| {
            vec(ops_strategy(hbv::specs::PAR_OPS, W, 1), 1..max_ops).prop_map(move |mut ops| {
                // every collection starts with a generated occupancy
                for i in (0..4).rev() {
                    ops.insert(0, hbv::case::Op::new(hbv::specs::par::FILL, &[sizes[i], i as u64, bases[i]]));
                }
                let mut c = Case::new("par");
                c.set("prop", 19);
                c.set("backend", (be < 25) as u64);
                set_plan(&mut c, "", plan);
                c.ops = ops;
                c
            })
        })
        .boxed()
}
