"""Deliberate breakages (DESIGN section 12). Each must compile; `checks` lists the checks that
are expected to exit 1 on it."""

RAW = "src/raw/mod.rs"
MAP = "src/map.rs"

MUTANTS = [
    dict(name="erase-always-empty", checks=["C01"], desc="erase never leaves a tombstone",
         edits=[(RAW, "empty_before.leading_zeros() + empty_after.trailing_zeros() >= Group::WIDTH {",
                 "empty_before.leading_zeros() + empty_after.trailing_zeros() >= Group::WIDTH * 4 {")]),
    dict(name="erase-ge-to-gt", checks=["C01"], desc=">= -> > in erase",
         edits=[(RAW, "empty_before.leading_zeros() + empty_after.trailing_zeros() >= Group::WIDTH {",
                 "empty_before.leading_zeros() + empty_after.trailing_zeros() > Group::WIDTH {")]),
    dict(name="set_ctrl-skips-mirror", checks=["C01"], desc="set_ctrl does not write the mirror byte",
         edits=[(RAW, "        *self.ctrl(index) = ctrl;\n        *self.ctrl(index2) = ctrl;",
                 "        *self.ctrl(index) = ctrl;\n        let _ = index2;")]),
    dict(name="find-stops-at-deleted", checks=["C01"], desc="find_inner stops at EMPTY-or-DELETED",
         edits=[(RAW, "            if likely(group.match_empty().any_bit_set()) {\n                return None;",
                 "            if likely(group.match_empty_or_deleted().any_bit_set()) {\n                return None;")]),
    dict(name="no-fix_insert_slot", checks=["C01"], desc="small-table insert fix-up removed",
         edits=[(RAW, "        if unlikely(self.is_bucket_full(index)) {\n            debug_assert!(self.bucket_mask < Group::WIDTH);",
                 "        if false && unlikely(self.is_bucket_full(index)) {\n            debug_assert!(self.bucket_mask < Group::WIDTH);")]),
    dict(name="insert-overwrites-key", checks=["C01"], desc="HashMap::insert replaces the stored key",
         edits=[(MAP, "            Ok(bucket) => Some(mem::replace(unsafe { &mut bucket.as_mut().1 }, v)),",
                 "            Ok(bucket) => { unsafe { bucket.as_mut().0 = k; } Some(mem::replace(unsafe { &mut bucket.as_mut().1 }, v)) }")]),
    dict(name="same-group-always", checks=["C01"], desc="is_in_same_group always true",
         edits=[(RAW, "        probe_index(i) == probe_index(new_i)\n", "        probe_index(i) == probe_index(new_i) || true\n")]),
]
