"""Deliberate breakages (DESIGN section 12). Each must compile; `checks` lists the checks that
are expected to exit 1 on it."""

RAW = "src/raw/mod.rs"
MAP = "src/map.rs"

MUTANTS = [
    dict(name="erase-always-empty", checks=["C01"], desc="erase never leaves a tombstone",
         edits=[(RAW, "empty_before.leading_zeros() + empty_after.trailing_zeros() >= Group::WIDTH {",
                 "empty_before.leading_zeros() + empty_after.trailing_zeros() >= Group::WIDTH * 4 {")]),
    dict(name="erase-ge-to-gt", checks=["C01"], desc=">= -> > in erase",
         edits=[(RAW, "empty_before.leading_zeros() + empty_after.trailing_zeros() >= Group::WIDTH {",
                 "empty_before.leading_zeros() + empty_after.trailing_zeros() > Group::WIDTH {")]),
    dict(name="set_ctrl-skips-mirror", checks=["C01"], desc="set_ctrl does not write the mirror byte",
         edits=[(RAW, "        *self.ctrl(index) = ctrl;\n        *self.ctrl(index2) = ctrl;",
                 "        *self.ctrl(index) = ctrl;\n        let _ = index2;")]),
    dict(name="find-stops-at-deleted", checks=["C01"], desc="find_inner stops at EMPTY-or-DELETED",
         edits=[(RAW, "            if likely(group.match_empty().any_bit_set()) {\n                return None;",
                 "            if likely(group.match_empty_or_deleted().any_bit_set()) {\n                return None;")]),
    dict(name="no-fix_insert_slot", checks=["C01"], desc="small-table insert fix-up removed",
         edits=[(RAW, "        if unlikely(self.is_bucket_full(index)) {\n            debug_assert!(self.bucket_mask < Group::WIDTH);",
                 "        if false && unlikely(self.is_bucket_full(index)) {\n            debug_assert!(self.bucket_mask < Group::WIDTH);")]),
    dict(name="insert-overwrites-key", checks=["C01"], desc="HashMap::insert replaces the stored key",
         edits=[(MAP, "            Ok(bucket) => Some(mem::replace(unsafe { &mut bucket.as_mut().1 }, v)),",
                 "            Ok(bucket) => { unsafe { bucket.as_mut().0 = k; } Some(mem::replace(unsafe { &mut bucket.as_mut().1 }, v)) }")]),
    dict(name="same-group-always", checks=["C01"], desc="is_in_same_group always true",
         edits=[(RAW, "        probe_index(i) == probe_index(new_i)\n", "        probe_index(i) == probe_index(new_i) || true\n")]),
    dict(name="c04-unfix-rehash-guard", checks=["C04"], desc="the unrepaired rehash_in_place guard (DESIGN section 10)",
         edits=[(RAW, """                    if let Some(drop) = drop {
                        drop(self_.bucket_ptr(i, size_of));
                    }
                    self_.items -= 1;""", """                    if let Some(drop) = drop {
                        drop(self_.bucket_ptr(i, size_of));
                        self_.items -= 1;
                    }""")]),
    dict(name="c04-clear-no-guard", checks=["C04"], desc="RawTable::clear without its scope guard",
         edits=[(RAW, """        let mut self_ = guard(self, |self_| self_.clear_no_drop());
        unsafe {
            // SAFETY: ScopeGuard sets to zero the `items` field of the table
            // even in case of panic during the dropping of the elements so
            // that there will be no double drop of the elements.
            self_.table.drop_elements::<T>();
        }""", """        unsafe {
            self.table.drop_elements::<T>();
        }
        self.clear_no_drop();""")]),
    dict(name="c04-erase-drop-first", checks=["C04"], desc="erase drops the element before unlinking it",
         edits=[(RAW, """        self.erase_no_drop(&item);
        item.drop();""", """        item.drop();
        self.erase_no_drop(&item);""")]),
    dict(name="c04-clone_from_impl-no-guard", checks=["C04"], desc="clone_from_impl guard does not drop the clones made so far",
         edits=[(RAW, """            if T::NEEDS_DROP {
                for i in 0..*index {""", """            if false && T::NEEDS_DROP {
                for i in 0..*index {""")]),
    # ---- C03
    dict(name="c03-clear-skips-drop", checks=["C03"], desc="clear does not drop the elements",
         edits=[(RAW, """            // that there will be no double drop of the elements.
            self_.table.drop_elements::<T>();""", """            // that there will be no double drop of the elements.
            let _ = &mut self_;""")]),
    dict(name="c03-clone_from-skips-drop", checks=["C03", "C11"], desc="clone_from does not drop the old elements",
         edits=[(RAW, """                // will be equal to zero.
                self_.table.drop_elements::<T>();""", """                // will be equal to zero.
                """)]),
    dict(name="c03-intoiter-drop-skips-rest", checks=["C03"], desc="RawIntoIter::drop does not drop the remainder",
         edits=[(RAW, """#[cfg(not(feature = "nightly"))]
impl<T, A: Allocator> Drop for RawIntoIter<T, A> {
    #[cfg_attr(feature = "inline-more", inline)]
    fn drop(&mut self) {
        unsafe {
            // Drop all remaining elements
            self.iter.drop_elements();""", """#[cfg(not(feature = "nightly"))]
impl<T, A: Allocator> Drop for RawIntoIter<T, A> {
    #[cfg_attr(feature = "inline-more", inline)]
    fn drop(&mut self) {
        unsafe {
            // Drop all remaining elements""")]),
    dict(name="c03-free-wrong-layout", checks=["C03"], desc="free_buckets passes a layout one byte short",
         edits=[(RAW, "        alloc.deallocate(ptr, layout);\n    }\n\n    /// Returns a pointer to the allocated memory",
                 "        alloc.deallocate(ptr, Layout::from_size_align_unchecked(layout.size() - 1, layout.align()));\n    }\n\n    /// Returns a pointer to the allocated memory")]),
    # ---- C06
    # (record_item_insert_at *always* decrementing with saturating_sub under-counts growth_left, which is safe and
    #  invisible to every listed property: tried, not detected, not a property violation - dropped.)
    dict(name="c06-insert_in_slot-never-decrements", checks=["C06"], desc="record_item_insert_at never consumes growth_left",
         edits=[(RAW, "        self.growth_left -= usize::from(old_ctrl.special_is_empty());\n        self.set_ctrl_hash(index, hash);",
                 "        let _ = old_ctrl;\n        self.set_ctrl_hash(index, hash);")]),
    dict(name="c06-vacant-reinsert-wrong-slot", checks=["C06"], desc="OccupiedEntry::remove hands out the slot after the freed one",
         edits=[(RAW, "            InsertSlot {\n                index: self.bucket_index(&item),\n            },", "            InsertSlot {\n                index: (self.bucket_index(&item) + 1) & self.table.bucket_mask,\n            },")]),
    dict(name="c06-iter_hash-wrong-group", checks=["C06"], desc="RawIterHashInner loads the group after the probe position",
         edits=[(RAW, "                let index = self.probe_seq.pos;\n                debug_assert!(index < self.bucket_mask + 1 + Group::WIDTH);",
                 "                let index = (self.probe_seq.pos + Group::WIDTH) & self.bucket_mask;\n                debug_assert!(index < self.bucket_mask + 1 + Group::WIDTH);")]),
    # ---- C09
    dict(name="c09-size_hint-plus-one", checks=["C09"], desc="RawIter::size_hint reports one more",
         edits=[(RAW, "        (self.items, Some(self.items))", "        (self.items + 1, Some(self.items + 1))")]),
    dict(name="c09-clone-resets-group", checks=["C09"], desc="RawIterRange::clone re-reads the current group",
         edits=[(RAW, "            current_group: self.current_group.clone(),\n            end: self.end,",
                 "            current_group: unsafe { Group::load_aligned(self.next_ctrl.sub(Group::WIDTH).cast()).match_full().into_iter() },\n            end: self.end,")]),
    # ---- C10
    dict(name="c10-drain-drop-skips-clear", checks=["C10"], desc="RawDrain::drop does not reset the control bytes",
         edits=[(RAW, "            // Reset the contents of the table now that all elements have been\n            // dropped.\n            self.table.clear_no_drop();",
                 "            // Reset the contents of the table now that all elements have been\n            // dropped.")]),
    dict(name="c10-retain-skips-last", checks=["C10"], desc="HashMap::retain keeps an element its predicate rejected when it is the only one left",
         edits=[(MAP, "                if !f(key, value) {\n                    self.table.erase(item);", "                if !f(key, value) && self.table.len() > 1 {\n                    self.table.erase(item);")]),
    # ---- C11
    dict(name="c11-eq-ignores-len", checks=["C11"], desc="PartialEq does not compare len",
         edits=[(MAP, "        if self.len() != other.len() {\n            return false;\n        }\n\n        self.iter()\n            .all(|(key, value)| other.get(key).map_or(false, |v| *value == *v))",
                 "        self.iter()\n            .all(|(key, value)| other.get(key).map_or(false, |v| *value == *v))")]),
    dict(name="c11-clone_from_impl-skips-growth_left", checks=["C11"], desc="clone_from_impl does not copy growth_left",
         edits=[(RAW, "        mem::forget(guard);\n\n        self.table.items = source.table.items;\n        self.table.growth_left = source.table.growth_left;",
                 "        mem::forget(guard);\n\n        self.table.items = source.table.items;")]),
    # ---- C13
    dict(name="c13-inplace-threshold-64", checks=["C13"], desc="in-place rehash only below capacity/64",
         edits=[(RAW, "        if new_items <= full_capacity / 2 {", "        if new_items <= full_capacity / 64 {")]),
    # ---- C14
    dict(name="c14-rustc_entry-no-reserve", checks=["C14"], desc="rustc_entry does not reserve before handing out a vacant entry",
         edits=[("src/rustc_entry.rs", "            self.reserve(1);", "            ")]),
    dict(name="c14-replace_bucket_with-growth_left", checks=["C14"], desc="replace_bucket_with does not restore growth_left",
         edits=[(RAW, "            self.table.growth_left = old_growth_left;\n", "            let _ = old_growth_left;\n")]),
    # ---- C15
    dict(name="c15-no-duplicate-check", checks=["C15"], desc="get_many_mut duplicate check removed",
         edits=[(RAW, "                if cur.is_some() && ptrs[..i].contains(cur) {", "                if false && cur.is_some() && ptrs[..i].contains(cur) {")]),
    # ---- C05
    dict(name="c05-no-fix_insert_slot", checks=["C05"], desc="small-table insert fix-up removed (needs broken hashing to matter? no: any small table)",
         edits=[(RAW, "        if unlikely(self.is_bucket_full(index)) {\n            debug_assert!(self.bucket_mask < Group::WIDTH);",
                 "        if false && unlikely(self.is_bucket_full(index)) {\n            debug_assert!(self.bucket_mask < Group::WIDTH);")]),
    # ---- C07
    dict(name="c07-union-wrong-difference", checks=["C07"], desc="union chains larger.difference(smaller)",
         edits=[("src/set.rs", "            iter: larger.iter().chain(smaller.difference(larger)),", "            iter: larger.iter().chain(larger.difference(smaller)),")]),
    dict(name="c07-sub_assign-inverted-branch", checks=["C07"], desc="-= retain branch keeps the wrong elements",
         edits=[("src/set.rs", "            self.retain(|item| !rhs.contains(item));", "            self.retain(|item| rhs.contains(item));")]),
    dict(name="c07-difference-size_hint", checks=["C07"], desc="Difference::size_hint lower bound = upper",
         edits=[("src/set.rs", "        (lower.saturating_sub(self.other.len()), upper)", "        (lower, upper)")]),
    dict(name="c07-intersection-le-to-lt-and-self", checks=["C07"], desc="intersection iterates the larger set against itself when sizes are equal",
         edits=[("src/set.rs", """        let (smaller, larger) = if self.len() <= other.len() {
            (self, other)
        } else {
            (other, self)
        };
        Intersection {""", """        let (smaller, larger) = if self.len() < other.len() {
            (self, other)
        } else if self.len() == other.len() {
            (self, self)
        } else {
            (other, self)
        };
        Intersection {""")]),
    dict(name="c07-get_or_insert_with-no-assert", checks=["C07"], desc="get_or_insert_with stores a non-equivalent value",
         edits=[("src/set.rs", '                assert!(value.equivalent(&new), "new value is not equivalent");', "                let _ = value.equivalent(&new);")]),
    dict(name="c07-replace-keeps-old", checks=["C07"], desc="replace returns the new value and keeps the old one",
         edits=[("src/set.rs", "            Ok(bucket) => Some(mem::replace(unsafe { &mut bucket.as_mut().0 }, value)),", "            Ok(bucket) => { let _ = bucket; Some(value) }")]),
    # ---- C02
    dict(name="c02-ctrl_align-ignores-elem-align", checks=["C02"], desc="TableLayout::new ignores align_of::<T>()",
         edits=[(RAW, "            ctrl_align: if layout.align() > Group::WIDTH {\n                layout.align()\n            } else {", "            ctrl_align: if false && layout.align() > Group::WIDTH {\n                layout.align()\n            } else {")]),
    dict(name="c02-layout-omits-mirror-bytes", checks=["C02"], desc="calculate_layout_for omits the + Group::WIDTH control bytes",
         edits=[(RAW, "        let len = ctrl_offset.checked_add(buckets + Group::WIDTH)?;", "        let len = ctrl_offset.checked_add(buckets)?;")]),
    dict(name="c02-drain-does-not-move-table-out", checks=["C02"], desc="RawDrain copies the table instead of moving it out (a leaked drain leaves stale contents)",
         edits=[(RAW, "            table: mem::replace(&mut self.table, RawTableInner::NEW),\n            orig_table: NonNull::from(&mut self.table),", "            table: ptr::read(&self.table),\n            orig_table: NonNull::from(&mut self.table),")]),
    # ---- C08
    dict(name="c08-capacity_to_buckets-minus-one", checks=["C08"], desc="capacity_to_buckets uses cap*8/7 - 1",
         edits=[(RAW, "    let adjusted_cap = cap.checked_mul(8)? / 7;", "    let adjusted_cap = cap.checked_mul(8)? / 7 - 1;")]),
    dict(name="c08-reserve-off-by-one", checks=["C08"], desc="reserve tolerates one missing slot",
         edits=[(RAW, "        if unlikely(additional > self.table.growth_left) {\n            // Avoid `Result::unwrap_or_else` because it bloats LLVM IR.\n            unsafe {\n                // SAFETY: The [`RawTableInner`] must already have properly initialized control\n                // bytes since we will never expose RawTable::new_uninitialized in a public API.\n                if self\n                    .reserve_rehash(additional, hasher, Fallibility::Infallible)",
                 "        if unlikely(additional > self.table.growth_left + 1) {\n            // Avoid `Result::unwrap_or_else` because it bloats LLVM IR.\n            unsafe {\n                // SAFETY: The [`RawTableInner`] must already have properly initialized control\n                // bytes since we will never expose RawTable::new_uninitialized in a public API.\n                if self\n                    .reserve_rehash(additional, hasher, Fallibility::Infallible)")]),
    dict(name="c08-small-table-min-cap", checks=["C08"], desc="small-table minimum capacity for 1-byte elements dropped from 14 to 3 is fine, but `cap < 15` -> `cap < 16` picks 16 buckets for 15",
         edits=[(RAW, "    if cap < 15 {", "    if cap < 16 {")]),
    # ---- C12
    dict(name="c12-try_reserve-infallible", checks=["C12"], desc="try_reserve uses Fallibility::Infallible",
         edits=[(RAW, "            unsafe { self.reserve_rehash(additional, hasher, Fallibility::Fallible) }", "            unsafe { self.reserve_rehash(additional, hasher, Fallibility::Infallible) }")]),
    dict(name="c12-alloc-error-wrong-layout", checks=["C12"], desc="AllocError carries a different layout",
         edits=[(RAW, "            Err(_) => return Err(fallibility.alloc_err(layout)),", "            Err(_) => return Err(fallibility.alloc_err(Layout::new::<u64>())),")]),
    dict(name="c12-spurious-capacity-overflow", checks=["C12"], desc="layout computation reports overflow above 512 KiB",
         edits=[(RAW, "        if len > isize::MAX as usize - (ctrl_align - 1) {", "        if len > (isize::MAX as usize >> 44) - (ctrl_align - 1) {")]),
    # ---- C17
    dict(name="c17-isize-guard-no-padding", checks=["C17"], desc="layout guard forgets the alignment padding",
         edits=[(RAW, "        if len > isize::MAX as usize - (ctrl_align - 1) {", "        if len > isize::MAX as usize {")]),
    dict(name="c17-probe-stride-half", checks=["C17"], desc="probe stride advances by half a group",
         edits=[(RAW, "        self.stride += Group::WIDTH;", "        self.stride += Group::WIDTH / 2;")]),
    dict(name="c17-capacity-8-buckets", checks=["C17"], desc="bucket_mask_to_capacity gives all 8 buckets of a 8-bucket table",
         edits=[(RAW, "    if bucket_mask < 8 {\n        // For tables with 1/2/4/8 buckets, we always reserve one empty slot.\n        // Keep in mind that the bucket mask is one less than the bucket count.\n        bucket_mask\n", "    if bucket_mask < 8 {\n        // For tables with 1/2/4/8 buckets, we always reserve one empty slot.\n        // Keep in mind that the bucket mask is one less than the bucket count.\n        bucket_mask + (bucket_mask == 7) as usize\n")]),
    dict(name="c17-ctrl-offset-unchecked-mul", checks=["C17"], desc="layout uses wrapping multiplication",
         edits=[(RAW, "            size.checked_mul(buckets)?.checked_add(ctrl_align - 1)? & !(ctrl_align - 1);", "            size.wrapping_mul(buckets).checked_add(ctrl_align - 1)? & !(ctrl_align - 1);")]),
    # ---- C18
    dict(name="c18-generic-match_empty-no-shift", checks=["C18"], desc="portable match_empty without << 1 (also matches DELETED)",
         edits=[("src/control/group/generic.rs", "        BitMask((self.0 & (self.0 << 1) & repeat(Tag::DELETED)).to_le())", "        BitMask((self.0 & self.0 & repeat(Tag::DELETED)).to_le())")]),
    dict(name="c18-generic-convert-shift-6", checks=["C18"], desc="portable convert_special uses >> 6",
         edits=[("src/control/group/generic.rs", "        Group(!full + (full >> 7))", "        Group(!full + (full >> 6))")]),
    dict(name="c18-bitmask-leading_zeros-stride", checks=["C18"], desc="BitMask::leading_zeros not divided by the stride",
         edits=[("src/control/bitmask.rs", "        self.0.leading_zeros() as usize / BITMASK_STRIDE", "        self.0.leading_zeros() as usize")]),
    dict(name="c18-sse2-convert-keeps-deleted", checks=["C18"], desc="SSE2 convert_special maps special bytes to themselves or DELETED (cmpgt operands swapped)",
         edits=[("src/control/group/sse2.rs", "            let special = x86::_mm_cmpgt_epi8(zero, self.0);", "            let special = x86::_mm_cmpgt_epi8(self.0, zero);")]),
    dict(name="c18-generic-match_tag-extra-bit", checks=["C18"], desc="portable match_tag drops the !cmp term (false positives anywhere)",
         edits=[("src/control/group/generic.rs", "        BitMask((cmp.wrapping_sub(repeat(Tag(0x01))) & !cmp & repeat(Tag::DELETED)).to_le())", "        BitMask((cmp.wrapping_sub(repeat(Tag(0x01))) & repeat(Tag::DELETED)).to_le())")]),
    # ---- C20
    dict(name="c20-no-cautious-cap", checks=["C20"], desc="serde size hint is trusted",
         edits=[("src/external_trait_impls/serde.rs", "        cmp::min(hint.unwrap_or(0), 4096)", "        cmp::min(hint.unwrap_or(0), usize::MAX >> 40)")]),
    dict(name="c20-visit_map-first-wins", checks=["C20"], desc="visit_map keeps the first value of a repeated key",
         edits=[("src/external_trait_impls/serde.rs", "                        values.insert(key, value);\n                    }\n\n                    Ok(values)\n                }\n            }\n\n            let visitor = MapVisitor {", "                        values.entry(key).or_insert(value);\n                    }\n\n                    Ok(values)\n                }\n            }\n\n            let visitor = MapVisitor {")]),
    dict(name="c20-in_place-no-clear", checks=["C20"], desc="deserialize_in_place does not clear the set first",
         edits=[("src/external_trait_impls/serde.rs", "                    self.0.clear();\n                    self.0.reserve", "                    self.0.reserve")]),
    # ---- C19
    dict(name="c19-split-mid-unaligned", checks=["C19"], desc="RawIterRange::split does not round the midpoint to a group",
         edits=[(RAW, "                let mid = (len / 2) & !(Group::WIDTH - 1);", "                let mid = len / 2;")]),
    dict(name="c19-pardrain-split-no-forget", checks=["C19"], desc="ParDrainProducer::split drops self (remaining elements dropped twice)",
         edits=[("src/external_trait_impls/rayon/raw.rs", "        let (left, right) = self.iter.clone().split();\n        mem::forget(self);", "        let (left, right) = self.iter.clone().split();")]),
    dict(name="c19-pardrain-no-drop", checks=["C19"], desc="ParDrainProducer::drop does not drop the undelivered remainder",
         edits=[("src/external_trait_impls/rayon/raw.rs", "        // Drop all remaining elements\n        if mem::needs_drop::<T>() {", "        // Drop all remaining elements\n        if false && mem::needs_drop::<T>() {")]),
    dict(name="c19-split-tail-one-group-late", checks=["C19"], desc="split tail starts one group too late (a group is visited by neither half)",
         edits=[(RAW, "                self.end = self.next_ctrl.add(mid);\n                debug_assert_eq!(self.end.add(Group::WIDTH), tail.next_ctrl);", "                self.end = self.next_ctrl.add(mid).sub(if mid >= Group::WIDTH { Group::WIDTH } else { 0 });")]),
    # ---- C16
    dict(name="c16-itermut-send-drops-k", checks=["C16"], desc="IterMut is Send without K: Send",
         edits=[(MAP, "unsafe impl<K: Send, V: Send> Send for IterMut<'_, K, V> {}", "unsafe impl<K, V: Send> Send for IterMut<'_, K, V> {}")]),
    dict(name="c16-itermut-covariant", checks=["C16"], desc="IterMut marker is covariant in V",
         edits=[(MAP, "    // To ensure invariance with respect to V\n    marker: PhantomData<(&'a K, &'a mut V)>,\n}\n\n// We override the default Send impl which has K: Sync instead of K: Send. Both", "    // To ensure invariance with respect to V\n    marker: PhantomData<(&'a K, &'a V)>,\n}\n\n// We override the default Send impl which has K: Sync instead of K: Send. Both")]),
    dict(name="c16-iter-unbound-lifetime", checks=["C16"], desc="HashMap::iter returns an iterator with an unbound lifetime",
         edits=[(MAP, "    pub fn iter(&self) -> Iter<'_, K, V> {", "    pub fn iter<'x>(&self) -> Iter<'x, K, V> {")]),
    dict(name="c16-table-occupied-entry-sync-unbounded", checks=["C16"], desc="hash_table::OccupiedEntry is Sync for any T",
         edits=[("src/table.rs", "unsafe impl<T, A> Sync for OccupiedEntry<'_, T, A>\nwhere\n    T: Sync,", "unsafe impl<T, A> Sync for OccupiedEntry<'_, T, A>\nwhere")]),
    dict(name="c16-find_mut-shared-self", checks=["C16"], desc="HashTable::iter_hash_mut borrows the table shared",
         edits=[("src/table.rs", "    pub fn iter_hash_mut(&mut self, hash: u64) -> IterHashMut<'_, T> {", "    pub fn iter_hash_mut(&self, hash: u64) -> IterHashMut<'_, T> {")]),
]
