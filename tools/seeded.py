#!/usr/bin/env python3
"""Run checks against the independently written breaking changes kept under /verif/seeded/<id>/.

  tools/seeded.py run <id>... [--tier quick] [--checks C01,C02]     (or: run all)
For each: git -C /repo apply patch.diff; run the checks named in meta.json["checks_to_run"] (default: the
property it breaks); git -C /repo checkout -- . ; the outcome is stored in meta.json["detection"].
"""
import json, os, subprocess, sys, time

REPO, VERIF = "/repo", "/verif"
SEEDED = os.path.join(VERIF, "seeded")


def revert():
    subprocess.run(["git", "-C", REPO, "checkout", "--", "."], check=True)
    subprocess.run(["git", "-C", REPO, "clean", "-fdq", "tests"], check=False)


def main():
    a = sys.argv[2:]
    tier, only = "quick", None
    ids = []
    while a:
        x = a.pop(0)
        if x == "--tier":
            tier = a.pop(0)
        elif x == "--checks":
            only = a.pop(0).split(",")
        else:
            ids.append(x)
    if "all" in ids:
        ids = sorted(os.listdir(SEEDED))
    for sid in ids:
        d = os.path.join(SEEDED, sid)
        meta_p = os.path.join(d, "meta.json")
        meta = json.load(open(meta_p))
        checks = only or meta.get("checks_to_run") or [meta["property"]]
        revert()
        r = subprocess.run(["git", "-C", REPO, "apply", os.path.join(d, "patch.diff")], capture_output=True, text=True)
        if r.returncode != 0:
            print(sid, "patch does not apply:", r.stderr[:300])
            continue
        det = meta.setdefault("detection", {})
        try:
            for c in checks:
                t0 = time.time()
                r = subprocess.run([os.path.join(VERIF, "check"), c, tier], cwd=VERIF, capture_output=True, text=True)
                viol = [l for l in r.stdout.splitlines() if l.startswith("VIOLATION")]
                kinds = [l.strip() for l in r.stderr.splitlines() if "kind=" in l][:2]
                det[f"{c}:{tier}"] = {"exit": r.returncode, "violations": viol[:3], "detail": kinds, "secs": round(time.time() - t0, 1)}
                print(f"{sid:28s} {c} {tier} exit={r.returncode} {viol[:1]} {kinds[:1]}", flush=True)
        finally:
            revert()
        json.dump(meta, open(meta_p, "w"), indent=1)


if __name__ == "__main__":
    main()
