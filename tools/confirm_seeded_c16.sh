#!/bin/bash
# C16 variant: the demonstration is a client program that must NOT compile on the clean tree and
# DOES compile with the change. Prints suite_with_patch=.. demo_compiles_with_patch=.. demo_compiles_without_patch=..
WT=$1; D=$2; FEAT=${3:-}
FF=""; [ -n "$FEAT" ] && FF="--features $FEAT"
export CARGO_TARGET_DIR=$WT/target CARGO_NET_OFFLINE=true
cd $WT || exit 2
git checkout -q -- . ; rm -f tests/seeded_demo.rs
cp $D/demo.rs tests/seeded_demo.rs
if cargo test --offline -q --no-run --test seeded_demo $FF >/tmp/confirm_$$.log 2>&1; then A=yes; else A=no; fi
CODES=$(grep -o "error\[E[0-9]*\]" /tmp/confirm_$$.log | sort -u | tr '\n' ' ')
rm -f tests/seeded_demo.rs
git apply $D/patch.diff || { echo "patch does not apply"; exit 2; }
if cargo test --workspace --no-fail-fast --offline -q >/tmp/confirm_$$.log 2>&1; then S=pass; else S=fail; fi
if cargo build --offline -q --features rayon,rustc-internal-api >/tmp/confirm_$$.log 2>&1; then S="$S+all-features-build"; fi
cp $D/demo.rs tests/seeded_demo.rs
if cargo test --offline -q --no-run --test seeded_demo $FF >/tmp/confirm_$$.log 2>&1; then B=yes; else B=no; fi
rm -f tests/seeded_demo.rs
git checkout -q -- .
echo "suite_with_patch=$S demo_compiles_with_patch=$B demo_compiles_without_patch=$A ($CODES)"
