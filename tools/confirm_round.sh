#!/bin/bash
# tools/confirm_round.sh <property> [features] : confirm every /tmp/wt/<property>/seeded/<i> with confirm_seeded.sh
P=$1; FEAT=${2:-}
for d in /tmp/wt/$P/seeded/*/; do
  i=$(basename $d)
  f=$FEAT
  if [ -z "$f" ]; then f=$(grep -io 'features: *[a-z,-]*' $d/notes.md | head -1 | sed 's/.*: *//I'); [ "$f" = none ] && f=""; fi
  echo "$P $i features=[$f] $(/verif/tools/confirm_seeded.sh /tmp/wt/$P $d $f 2>&1 | tail -1)"
done
