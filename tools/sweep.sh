#!/bin/bash
# Silent-on-the-unchanged-tree sweep: every runner property with several seeds, fresh processes.
# usage: tools/sweep.sh "<seeds>" [tier]
SEEDS=${1:-"1 2 3"}
TIER=${2:-quick}
cd /verif/harness && cargo build --release --offline -q 2>&1 | grep -E "^error" ; true
for seed in $SEEDS; do
  for p in C01 C02 C03 C04 C05 C06 C07 C08 C09 C10 C11 C12 C13 C14 C15 C17 C18 C19 C20; do
    out=$(./target/release/hbv-run $p --tier $TIER --seed $seed --replays /tmp/sweep_replays --evidence /tmp/sweep_ev_$p.json 2>&1 | grep -E "^FOUND|^SUMMARY|WATCHDOG|panicked")
    echo "seed=$seed $out" | grep -E "FOUND|WATCHDOG|panicked|found=[1-9]" || echo "seed=$seed $p ok $(echo "$out" | grep -o 'wall_s=[0-9.]*')"
  done
done
