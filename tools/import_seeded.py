#!/usr/bin/env python3
"""import_seeded.py <property> <worktree> <n> "<needs>" "<confirm line>" [features] [dst number] : copy an agent's change into /verif/seeded/."""
import json, os, shutil, sys
prop, wt, n, needs, confirm = sys.argv[1:6]
feat = sys.argv[6] if len(sys.argv) > 6 else ""
src = os.path.join(wt, "seeded", n)
dstn = sys.argv[7] if len(sys.argv) > 7 else n
dst = f"/verif/seeded/{prop}-{dstn}"
os.makedirs(dst, exist_ok=True)
for f in ("patch.diff", "demo.rs", "notes.md"):
    if os.path.exists(os.path.join(src, f)):
        shutil.copy(os.path.join(src, f), dst)
meta = {
    "property": prop,
    "origin": "written by an independent sub-agent that saw only the property text and a scratch worktree of /repo",
    "needs_to_manifest": needs,
    "demo_features": feat,
    "confirmed_by_me": {
        "how": "tools/confirm_seeded.sh in the scratch worktree: patch applies; `cargo test --workspace --no-fail-fast --offline` passes with the patch; demo.rs (as tests/seeded_demo.rs) fails with the patch and passes without it",
        "result": confirm,
    },
    "checks_to_run": [prop],
}
json.dump(meta, open(os.path.join(dst, "meta.json"), "w"), indent=1)
print(dst)
