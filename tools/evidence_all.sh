#!/bin/bash
# Regenerate /verif/evidence/*.json from the unchanged tree: every quick check once (VERIF_SEED from the environment,
# default 1). Refuses to run when /repo has uncommitted changes (a seeded patch left behind would pollute the evidence).
cd /verif || exit 2
if [ -n "$(git -C /repo status --short)" ]; then echo "/repo is not clean"; exit 2; fi
export VERIF_SEED=${VERIF_SEED:-1}
rc=0
for p in C01 C02 C03 C04 C05 C06 C07 C08 C09 C10 C11 C12 C13 C14 C15 C16 C17 C18 C19 C20; do
  ./check $p quick > /tmp/ev_$p.log 2>&1; e=$?
  echo "$p exit=$e $(grep -c VIOLATION /tmp/ev_$p.log) violations $(grep -o 'wall_s=[0-9.]*' /tmp/ev_$p.log | tail -1)"
  [ $e -ne 0 ] && rc=1
done
exit $rc
