#!/bin/bash
# Confirm an independently written breaking change in a scratch worktree:
#   tools/confirm_seeded.sh <worktree> <subdir with patch.diff + demo.rs> [cargo features for the demo]
# Prints: suite_with_patch=pass|fail demo_with_patch=fail|pass demo_without_patch=pass|fail
WT=$1; D=$2; FEAT=${3:-}
export CARGO_TARGET_DIR=$WT/target CARGO_NET_OFFLINE=true
cd $WT || exit 2
git checkout -q -- . ; rm -f tests/seeded_demo.rs
FF=""; [ -n "$FEAT" ] && FF="--features $FEAT"
cp $D/demo.rs tests/seeded_demo.rs
if cargo test --offline -q --test seeded_demo $FF >/tmp/confirm_$$.log 2>&1; then A=pass; else A=fail; fi
rm -f tests/seeded_demo.rs
git apply $D/patch.diff || { echo "patch does not apply"; exit 2; }
if cargo test --workspace --no-fail-fast --offline -q >/tmp/confirm_$$.log 2>&1; then S=pass; else S=fail; fi
if [ -n "$FEAT" ]; then if cargo test --no-fail-fast --offline -q $FF >/tmp/confirm_$$.log 2>&1; then S="$S+feature-suite-pass"; else S="$S+feature-suite-fail"; fi; fi
cp $D/demo.rs tests/seeded_demo.rs
if cargo test --offline -q --test seeded_demo $FF >/tmp/confirm_$$.log 2>&1; then B=pass; else B=fail; fi
rm -f tests/seeded_demo.rs
git checkout -q -- .
echo "suite_with_patch=$S demo_with_patch=$B demo_without_patch=$A"
rm -f /tmp/confirm_$$.log
