#!/bin/bash
# Run seeded changes in parallel "lanes": every lane is a private copy of /repo and /verif bind-mounted over
# /repo and /verif inside its own mount namespace, so the checks run unmodified (absolute paths and all)
# while the real /repo is never patched.  Results (meta.json "detection") are copied back afterwards.
#   tools/lanes.sh <nlanes> <id>...          e.g. tools/lanes.sh 4 C05-8 C05-9 C07-9
# Lanes live in /var/tmp/hbv-lanes/<i> and are removed at the end (KEEP_LANES=1 keeps them).
set -u
N=$1; shift
IDS=("$@")
ROOT=${HBV_LANES_ROOT:-/var/tmp/hbv-lanes}
mkdir -p $ROOT
pids=()
for ((i = 0; i < N; i++)); do
  mine=()
  for ((j = i; j < ${#IDS[@]}; j += N)); do mine+=("${IDS[$j]}"); done
  [ ${#mine[@]} -eq 0 ] && continue
  L=$ROOT/$i
  (
    mkdir -p $L/repo $L/verif
    rsync -a --delete --exclude target /repo/ $L/repo/
    rsync -a --delete --exclude 'hbv/fuzz/target' --exclude 'fuzz/target' /verif/ $L/verif/
    unshare -m bash -c "mount --bind $L/repo /repo && mount --bind $L/verif /verif && cd /verif && git -C /repo checkout -q -- . && ${HBV_LANE_ENV:-} python3 tools/seeded.py run ${mine[*]} ${LANE_ARGS:-}" >$ROOT/lane$i.log 2>&1
    for id in "${mine[@]}"; do cp $L/verif/seeded/$id/meta.json /verif/seeded/$id/meta.json; done
    [ -n "${KEEP_LANES:-}" ] || rm -rf $L
  ) &
  pids+=($!)
done
for p in "${pids[@]}"; do wait $p; done
cat $ROOT/lane*.log
