#!/usr/bin/env python3
"""Sensitivity runs: apply one textual mutant to /repo, run a check, revert.

  tools/mutate.py list
  tools/mutate.py run <mutant-name>... [--tier quick]     (or: run all / run C01)
Results are appended to tools/mutants_results.jsonl. /repo is restored with
`git checkout -- .` after every mutant, also on Ctrl-C.
"""
import json, os, subprocess, sys, time

sys.path.insert(0, os.path.dirname(__file__))
from mutants import MUTANTS  # noqa

REPO = "/repo"
VERIF = "/verif"


def apply(m):
    for (path, old, new) in m["edits"]:
        p = os.path.join(REPO, path)
        s = open(p).read()
        if s.count(old) < 1:
            raise SystemExit(f"mutant {m['name']}: pattern not found in {path}: {old[:60]!r}")
        if m.get("all"):
            s = s.replace(old, new)
        else:
            s = s.replace(old, new, 1)
        open(p, "w").write(s)


def revert():
    subprocess.run(["git", "-C", REPO, "checkout", "--", "."], check=True)


def run_one(m, tier):
    revert()
    apply(m)
    res = {"name": m["name"], "tier": tier, "checks": {}}
    try:
        for chk in m["checks"]:
            t0 = time.time()
            r = subprocess.run([os.path.join(VERIF, "check"), chk, tier], cwd=VERIF, stdout=subprocess.PIPE,
                               stderr=subprocess.PIPE, text=True)
            viol = [l for l in r.stdout.splitlines() if l.startswith("VIOLATION")]
            res["checks"][chk] = {"exit": r.returncode, "violations": viol, "secs": round(time.time() - t0, 1),
                                  "detail": [l.strip() for l in r.stderr.splitlines() if "kind=" in l][:3]}
            print(f"  {m['name']:40s} {chk} exit={r.returncode} {viol[:1]} {res['checks'][chk]['detail'][:1]} ({res['checks'][chk]['secs']}s)", flush=True)
    finally:
        revert()
    with open(os.path.join(VERIF, "tools", "mutants_results.jsonl"), "a") as f:
        f.write(json.dumps(res) + "\n")
    return res


def main():
    if len(sys.argv) < 2 or sys.argv[1] == "list":
        for m in MUTANTS:
            print(m["name"], m["checks"], "-", m.get("desc", ""))
        return
    tier = "quick"
    names = []
    a = sys.argv[2:]
    while a:
        x = a.pop(0)
        if x == "--tier":
            tier = a.pop(0)
        else:
            names.append(x)
    sel = [m for m in MUTANTS if "all" in names or m["name"] in names or any(n in m["checks"] and n.startswith("C") for n in names)]
    try:
        for m in sel:
            run_one(m, tier)
    finally:
        revert()


if __name__ == "__main__":
    main()
