#!/usr/bin/env python3
"""Print the markdown table of seeded changes and which checks caught them (from seeded/*/meta.json)."""
import json, os, re
S = "/verif/seeded"
print("| change | breaks | needs to manifest | result |")
print("|--------|--------|-------------------|--------|")
for sid in sorted(os.listdir(S)):
    m = json.load(open(os.path.join(S, sid, "meta.json")))
    det = m.get("detection", {})
    res = []
    for k, v in det.items():
        if v["exit"] == 1:
            kinds = ", ".join(sorted({re.search(r"kind=(\S+)", d).group(1) for d in v["detail"] if re.search(r"kind=(\S+)", d)}))
            props = ", ".join(sorted({re.search(r"property=(\S+)", x).group(1) for x in v["violations"]}))
            res.append(f"caught by `{k}` [{props}: {kinds}]")
        else:
            res.append(f"**missed by `{k}`** (exit {v['exit']})")
    first = f" - **{m['first_run']}**" if m.get("first_run") else ""
    print(f"| {sid} | {m['property']} | {m['needs_to_manifest']} | {'; '.join(res) or 'not run yet'}{first} |")
