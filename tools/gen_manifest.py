#!/usr/bin/env python3
"""Regenerate MANIFEST.json from the table below (single source of truth)."""
import json, os

VERIF = os.path.dirname(os.path.dirname(os.path.abspath(__file__)))
props = [json.loads(l) for l in open(os.path.join(VERIF, "properties.jsonl"))]

TRUST = ("Trusted base: the reference model and validator in harness/hbv (independent re-statement of the "
         "property), the read-only verif-hooks wrappers in /repo, proptest's generators/shrinker, rustc.")

CHECKS = {
    "C01": dict(cat="exploration", tech="model-based stateful PBT (proptest) vs association-list model + structure validator",
                text="Generated-input search: 60k (quick) / 1.5M (thorough) operation histories x hash plans x capacity histories on both scanner back-ends (one program in fifteen on HashMap<E,E> over the 20 element layouts, incl. zero-sized and 400-byte pairs), every step compared with an association-list model and validated structurally (tag + probe reachability of every slot); by-reference Extend impls, From<[(K,V);N]>, entry chains through returned entries. Refutes, never proves; coverage classes are measured and reported.",
                ref="9.1"),
    "C03": dict(cat="exploration", tech="stateful PBT with per-element life-cycle ledger and allocation ledger (tracked elements, checking allocator)",
                text="Generated histories over HashMap, HashSet, HashTable and the tracked element layouts (incl. a zero-sized type with drop glue) with tracked elements; every owning iterator is cut at a generated point; a collection created with capacity 0 must own no block until an operation could have given it an element or a capacity; a registry records construct/clone/drop per element serial and the checking allocator every allocate/deallocate with its layout. Double drops, leaks, layout mismatches and blocks left over are reported per step and at the end of each case.",
                ref="9.3"),
    "C04": dict(cat="fault_enumeration", tech="fault injection: for each generated (state, operation) every k-th invocation of every callback class panics; validity oracle after unwind",
                text="Fault enumeration on HashMap, HashSet (two sets, operators, algebra) and HashTable programs: for each generated history the target operations (the generated step plus steps that rehash in place or resize) are re-run once per (callback class, k) for every k up to the number of invocations observed fault-free (all k <= 64, geometric sample above). After the unwind the collection must validate structurally, len() must equal what it yields and finds, lost elements must be dropped exactly once, and a hasher panic during growth into a new block must leave contents unchanged.",
                ref="9.4"),
    "C05": dict(cat="exploration", tech="stateful PBT with answer tapes for Hash/Eq (inconsistent implementations); safety-subset oracle",
                text="HashMap, two-HashSet and HashTable histories under 8 modes of broken Hash/Eq (for tables: broken caller-side hasher / eq closures) driven by tapes stored in the case, Index under catch_unwind; only safety is judged: structure validator, checking allocator, element ledger, len()==yielded count, watchdog.",
                ref="9.5"),
    "C06": dict(cat="exploration", tech="model-based stateful PBT of the explicit-hash HashTable API vs multiset model",
                text="Histories over HashTable with caller-supplied hashes (collisions in position, tag or both, exact duplicates), every step compared with a multiset model keyed by a unique id per inserted element; iter_hash superset/no-duplicate predicate, also consumed through fold / count / a clone; the entry returned by insert_unique is removed and re-filled through its VacantEntry; HashTable over the element-layout family and tables with 2^16 elements / several hundred elements under one hash; structure validator incl. probe reachability.",
                ref="9.6"),
    "C09": dict(cat="exploration", tech="PBT over (state, iterator kind, switch-over prefix, continuation) with exact-length oracle",
                text="Every iterator kind of HashMap, HashSet (incl. the algebra iterators) and HashTable, also through IntoIterator for & / &mut and on the 20 element layouts (yield counts by next()), is driven from generated states with a generated prefix and continuation (next/fold/for_each/clone/clone_from/count/drop); size_hint and len checked at every step, yielded multiset compared with the model; a few cases per run hold 65 536 .. 136 000 elements (counting statements).",
                ref="9.9"),
    "C10": dict(cat="exploration", tech="PBT over (state, predicate subset, predicate mutation, early-drop point) vs model subset semantics",
                text="retain / extract_if / drain on HashMap, HashSet, HashTable and the element-layout family (zero-sized, over-aligned; extract_if answers by call index) from generated states with generated subsets and cut points; predicate call multiset, yielded items, survivors, mutations and allocation retention are compared with the model; drains are dropped early or consumed by next / fold / for_each / count; a few cases per run hold more than 2^16 elements (predicate call counts).",
                ref="9.10"),
    "C11": dict(cat="exploration", tech="metamorphic PBT over pairs of histories: clone/clone_from/== relations + independence via two models",
                text="Two map slots (also two HashSets, a HashTable, and the tracked element layouts incl. the zero-sized one) with independent histories, capacities and hash plans; clone, clone_from (all relative bucket counts, tombstoned targets), == in both directions, mirrored contents through different histories; both keep being compared with their own models afterwards; == also with the same object on both sides and with values whose == is never true; a clone must call Clone::clone once per non-Copy value.",
                ref="9.11"),
    "C13": dict(cat="exploration", tech="long-history PBT with bounded live size: allocation bound + EMPTY-slot invariant + watchdog",
                text="Long capped churn histories under all hash plans, six removal patterns, bulk removals and clone-and-continue (HashMap), plus HashTable programs with lookups / iter_hash of absent hashes on tombstone-saturated tables; allocation_size() must stay below with_capacity(4 x peak live); an insert into a table at most half full of live elements must not enlarge it; structural invariant V2 (an EMPTY slot exists, growth_left cannot consume the last) after every step; watchdog on every operation.",
                ref="9.13"),
    "C14": dict(cat="exploration", tech="differential PBT: entry-style API chains vs plain get/insert/remove on the model, biased to full load",
                text="entry, entry_ref, raw_entry(_mut) via from_key/from_key_hashed_nocheck/from_hash, rustc_entry: discriminant, return values and effects of method chains compared with the model from states biased to growth_left==0, tombstones and the singleton; chains through the entry a vacant insert returns (replace_entry_with(None), then the Vacant entry it hands back); one program in eleven creates entry objects on the element-layout family.",
                ref="9.14"),
    "C02": dict(cat="exploration", tech="PBT over safe-API programs x 20 element layouts x object life cycles (drop / mem::forget), monitored by a guarded checking allocator, reference validation, structure validator and debug/UB-precondition assertions",
                text="Generated programs over HashTable/HashSet/HashMap for 20 (size, align) element layouts incl. zero-sized (with and without drop glue), over-aligned, 200-byte and tracked ones; iterators, drains, extract_ifs, entries are advanced j steps, formatted with {:?} (element Debug impls check what they are handed), then dropped or forgotten and the collection keeps being used. Out-of-bounds writes hit red zones, freed blocks are poisoned and quarantined, every reference is checked for alignment, membership in the data part of the live block and an element self-check; runner crashes are captured and minimised.",
                ref="9.2"),
    "C07": dict(cat="exploration", tech="PBT over pairs of set histories vs mathematical sets (BTreeSet), size_hint bound checks",
                text="Two HashSets with independent histories/capacities/hash plans: union, intersection, difference, symmetric_difference (next/fold/clone, size_hint bounds at every step), predicates and ==, operator and assigning forms, replace/take/get_or_insert/get_or_insert_with (incl. refused non-equivalent value)/entry, compared with BTreeSet results as multisets.",
                ref="9.7"),
    "C08": dict(cat="exploration", tech="PBT over (state, n, m, layout, collection kind) with a counting allocator and the capacity inequalities of the statement",
                text="States from histories x n, m on and around the 7/8*2^k and 2^k boundaries x 20 layouts x table/set/map: capacity>=len, reserve/with_capacity lower bounds, zero allocator calls while inserting capacity()-len() fresh keys, zero calls for new/default/with_capacity(0) (counting global allocator), clear/drain keep the block, allocation_size()==ledger bytes, the shrink inequalities incl. comparison with a fresh with_capacity(max(len,m)); by-reference Extend of keys that fit must not allocate; a few cases per run use tables of 2^16 .. 2^18 buckets.",
                ref="9.8"),
    "C12": dict(cat="exploration", tech="PBT over (state, additional on arithmetic boundaries, layout, allocator behaviour) with a result trichotomy and nothing-changed snapshot",
                text="try_reserve from generated states with `additional` on every arithmetic boundary, for 20 layouts and 3 collection kinds, against an allocator that grants, refuses the j-th request, refuses above a limit, or hands out blocks longer than requested; Ok / CapacityOverflow / AllocError(refused layout) trichotomy, never a panic, valid layouts only, and on Err nothing changed and nothing leaked.",
                ref="9.12"),
    "C16": dict(cat="exploration", tech="exhaustive generation of client programs (type x witness types x obligation; borrow misuse; covariant coercions), rustc as executor, each rejecting program paired with an accepting control twin",
                text="About 7.4k generated single-obligation programs over every public type of hash_map, hash_set, hash_table and the rayon adaptors: auto-trait obligations under every assignment of {Send+Sync, Send-only, Sync-only, neither} witness types that violates a hand-written access-requirement table must be rejected (E0277) while the all-Send+Sync twin is accepted; covariant coercions through writing types must be rejected; results of every borrowing method used after mutate/drop/move of the collection must be rejected while the control twin compiles. The type checker is universal over the generic parameters for the witness lattice used; the inventory and the table are hand-written (new public types are reported).",
                ref="9.16", note="Trusted base: rustc's type and borrow checker, the hand-written access-requirement table (DESIGN Appendix A) and inventory of public types."),
    "C19": dict(cat="exploration", tech="PBT over (occupancy pattern, parallel operation, pool size, early-stop point) on real rayon pools + hook-driven explicit split trees, with an atomic per-element drop/delivery ledger",
                text="Generated occupancy patterns on map/sets/table of atomically tracked elements; every par_* adaptor on pools of 1..64 threads, fully consumed, stopped early (try_for_each, find_any, a consumer that panics at the k-th item) or never driven; par_extend / from_par_iter with repeated keys carrying their input position, by value and by reference, into empty and non-empty targets; par_eq on perturbed clones; explicit split trees through hooks for RawIterRange::split (leaves must partition the FULL buckets) and ParDrainProducer (split / fold with a folder that fills up / drop). Delivered multiset == contents; every element dropped exactly once; collection empty, valid and usable after par_drain.",
                ref="9.19"),
    "C17": dict(cat="exploration", tech="exhaustive + boundary + seeded-random enumeration of the arithmetic functions through hooks vs independent u128 arithmetic",
                text="capacity_to_buckets, bucket_mask_to_capacity, calculate_layout_for, TableLayout::new and the probe sequence are evaluated through read-only hooks on both group widths over exhaustive low ranges, +-4096 (quick) / +-65536 (thorough) neighbourhoods of every 2^k and 7/8*2^k up to usize::MAX, extreme (size, align) pairs and seeded random 64-bit inputs; plus requests made through live HashTable / HashSet objects (len 0..100, four element sizes): try_reserve / reserve with len + additional at every cheap 2^k and 7/8*2^k boundary and additional at the ends of the usize range (Ok needs capacity() >= len + additional, no panic, no wrapped sum); exhaustive only in the stated ranges.",
                ref="9.17"),
    "C18": dict(cat="exploration", tech="differential PBT (SSE2 build vs portable twin in one process, step-wise transcript) + exhaustive byte-window enumeration of the scanner primitives vs bytewise reference",
                text="Every generated map/table case (lookups, inserts, removals, entries, shared iterators with every continuation, iter_hash) runs on both back-ends; both must satisfy the model at every step and produce identical per-step digests of (len, sorted contents). The scanner primitives are compared with their bytewise definitions on all 2^16 values of every adjacent byte pair in several background groups plus random groups.",
                ref="9.18"),
    "C20": dict(cat="exploration", tech="PBT over (entry stream with duplicates, claimed size hint, error position, format) with round-trip, last-wins model and allocation ledger",
                text="serde_json round trips and serde value deserializers over lying iterators (hints: none, exact, understated, overstated and satisfiable such as 5000 .. 100 000, huge incl. 2^63 +- 1 and usize::MAX) for maps and sets of tracked elements and of (), u8, u64, bool, String elements: equality after round trip, last value wins, errors returned with every built element dropped once and nothing left allocated, reservation before the first read bounded by with_capacity(4096), deserialize_in_place clears first.",
                ref="9.20"),
    "C15": dict(cat="exploration", tech="PBT over (state, N, key tuples) with pointer-distinctness and write-through oracle",
                text="get_many_mut / get_many_key_value_mut (HashMap) and get_many_mut (HashTable, closures that may match several entries) for N in 0..=4, 9, 12, with the keys themselves or unsized equivalent keys that all start at one address, and on the element-layout family (zero-sized, over-aligned) with N = 1, 2: panic iff two requests name one entry, distinct addresses, right targets, sentinels land in the model's entries.",
                ref="9.15"),
}

manifest = {
    "version": 1,
    "setup_cmd": "cd /verif && ./check --setup",
    "hooks": {
        "guard": "cargo feature verif-hooks (off by default)",
        "enable": "harness crates depend on hashbrown (path /repo) with features verif-hooks, rayon, serde, rustc-internal-api; the twin package harness/hashbrown-generic compiles the same /repo/src with cfg(miri) for the portable scanner",
        "baseline_off_cmd": "cd /repo && cargo test --workspace --no-fail-fast --offline",
        "source_commits": ["88d9a60"],
        "add_only": True,
    },
    "engines": [
        {"name": "hbv", "path": "harness/hbv", "serves_properties": sorted(CHECKS.keys()),
         "kind_free_text": "engine library: world/registry, checking allocator, hash plans, interpreters with reference models, structure validator"},
        {"name": "hbv-run", "path": "harness/runner", "serves_properties": sorted(CHECKS.keys()),
         "kind_free_text": "proptest-driven runners (16 workers, fixed seeds, structural shrinking, replay files, evidence)"},
    ],
    "checks": [],
    "not_applicable": [],
    "notes": "All checks: ./check <id> <quick|thorough>; VERIF_SEED selects the proptest seeds. Exit 2 = infrastructure problem, never a verdict.",
}
for p in props:
    pid = p["id"]
    if pid in CHECKS:
        c = CHECKS[pid]
        manifest["checks"].append({
            "property_id": pid,
            "quick_cmd": f"./check {pid} quick",
            "thorough_cmd": f"./check {pid} thorough",
            "evidence_file": f"/verif/evidence/{pid}.json",
            "replay_cmd_template": "./check --replay {path}",
            "engine": "hbv-run",
            "level_claimed": {"category": c["cat"], "text": c["text"], "design_ref": "DESIGN.md section " + c["ref"]},
            "level_note": c.get("note", TRUST),
            "technique": c["tech"],
        })
    else:
        manifest["not_applicable"].append({"property_id": pid, "reason": "check not built yet (work in progress; DESIGN.md section 16 gives the order)"})
json.dump(manifest, open(os.path.join(VERIF, "MANIFEST.json"), "w"), indent=1)
print("checks:", [c["property_id"] for c in manifest["checks"]])
