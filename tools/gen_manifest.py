#!/usr/bin/env python3
"""Regenerate MANIFEST.json from the table below (single source of truth)."""
import json, os

VERIF = os.path.dirname(os.path.dirname(os.path.abspath(__file__)))
props = [json.loads(l) for l in open(os.path.join(VERIF, "properties.jsonl"))]

TRUST = ("Trusted base: the reference model and validator in harness/hbv (independent re-statement of the "
         "property), the read-only verif-hooks wrappers in /repo, proptest's generators/shrinker, rustc.")

CHECKS = {
    "C01": dict(cat="exploration", tech="model-based stateful PBT (proptest) vs association-list model + structure validator",
                text="Generated-input search: ~24k (quick) / 400k (thorough) operation histories x hash plans x capacity histories on both scanner back-ends, every step compared with an association-list model and validated structurally (tag + probe reachability of every slot). Refutes, never proves; coverage classes are measured and reported.",
                ref="9.1"),
}

manifest = {
    "version": 1,
    "setup_cmd": "cd /verif && ./check --setup",
    "hooks": {
        "guard": "cargo feature verif-hooks (off by default)",
        "enable": "harness crates depend on hashbrown (path /repo) with features verif-hooks, rayon, serde, rustc-internal-api; the twin package harness/hashbrown-generic compiles the same /repo/src with cfg(miri) for the portable scanner",
        "baseline_off_cmd": "cd /repo && cargo test --workspace --no-fail-fast --offline",
        "source_commits": ["88d9a60"],
        "add_only": True,
    },
    "engines": [
        {"name": "hbv", "path": "harness/hbv", "serves_properties": sorted(CHECKS.keys()),
         "kind_free_text": "engine library: world/registry, checking allocator, hash plans, interpreters with reference models, structure validator"},
        {"name": "hbv-run", "path": "harness/runner", "serves_properties": sorted(CHECKS.keys()),
         "kind_free_text": "proptest-driven runners (16 workers, fixed seeds, structural shrinking, replay files, evidence)"},
    ],
    "checks": [],
    "not_applicable": [],
    "notes": "All checks: ./check <id> <quick|thorough>; VERIF_SEED selects the proptest seeds. Exit 2 = infrastructure problem, never a verdict.",
}
for p in props:
    pid = p["id"]
    if pid in CHECKS:
        c = CHECKS[pid]
        manifest["checks"].append({
            "property_id": pid,
            "quick_cmd": f"./check {pid} quick",
            "thorough_cmd": f"./check {pid} thorough",
            "evidence_file": f"/verif/evidence/{pid}.json",
            "replay_cmd_template": "./check --replay {path}",
            "engine": "hbv-run",
            "level_claimed": {"category": c["cat"], "text": c["text"], "design_ref": "DESIGN.md section " + c["ref"]},
            "level_note": c.get("note", TRUST),
            "technique": c["tech"],
        })
    else:
        manifest["not_applicable"].append({"property_id": pid, "reason": "check not built yet (work in progress; DESIGN.md section 16 gives the order)"})
json.dump(manifest, open(os.path.join(VERIF, "MANIFEST.json"), "w"), indent=1)
print("checks:", [c["property_id"] for c in manifest["checks"]])
